#!/usr/bin/env python3
"""Generates /verif/MANIFEST.json. Edit BUILT as engines land."""
import json
import os
import subprocess

ROOT = os.path.dirname(os.path.dirname(os.path.abspath(__file__)))

# property -> (engine, technique, level text, level note, design section)
P = {
 "C01": ("SEQ", "bounded-exhaustive enumeration of op sequences (restart as a letter) on the real code vs. a reference model",
         "Every op sequence up to the stated depth over the alphabet, from the empty directory and from multi-file / GC / cursor seeds, for each hasher seed, runs on the real code; after every restart the full observable state is compared with the reference model. Exhaustive within the bound, which is what a history-quantified property can get short of a proof.",
         "Trusts: the reference model (50 lines), the fs shim, tmpfs. Bound: depth after seeds, payload sizes from the menu, two geometries (64 B x 4 and 32 KiB x 4 blocks per file).", "5 C01"),
 "C02": ("CRASH", "exhaustive crash-point enumeration (every fs-effect prefix x every byte cut, second crash in recovery, continuations) over all short histories",
         "For every history of the bound, the recorded sequence of file-system effects below the BufWriter is cut after every effect and inside every write at every byte; the directory image is rebuilt, recovered with the real open(), compared with the allowed-state set, crashed again inside recovery's own writes, and continued with further ops and a restart against the model.",
         "Process-crash model of the property (effects reach the OS in program order; set_len/create/unlink atomic). Trusts the fs shim's event trace and the allowed-set oracle.", "4.2, 5 C02"),
 "C03": ("CRASH", "exhaustive crash-point enumeration under every persist policy, process-crash and power-loss images",
         "As C02 over 6 policy configurations with explicit persist ops in the alphabet; the oracle is 'recovered state is at least as recent as the last persisted point'; power-loss images drop unsynced data (per file none/all) and unsynced directory operations (every prefix).",
         "Power-loss model: data before a file's last fsync durable, unsynced effects as any prefix per file; directory ops durable as a prefix after the last directory fsync. Also started from a directory whose newest file was created but not sized, and (per-call-persist policies) continued by one call + restart after every recovery.", "4.2, 5 C03"),
 "C04": ("SEQ+CRASH", "bounded-exhaustive op sequences with a model-free position monitor; crash continuations",
         "Model-free monitor per queue incarnation (every assigned position exceeds everything appended or truncated-to before; automatic positions continue exactly) over all sequences from seeds in which a queue idles while its files are deleted, with restarts, both orders of GC position entries; plus after every crash recovery the first append per queue.",
         "Bound: depth after seeds. The crash part shares C02's crash model.", "5 C04"),
 "C05": ("SEQ", "bounded-exhaustive enumeration of op sequences over the full call-shape alphabet vs. a reference model, all range-bound shapes",
         "Every sequence over A_full (every call shape incl. rejected ones, missing queues, empty batches/payloads, retry/past/gap/huge positions, 5 truncate positions) is executed; every return value and, once per prefix, every accessor for all Included/Excluded/Unbounded bound pairs is compared byte for byte with the model. Ring-buffer wrap reads are measured.",
         "Trusts the reference model. Payload sizes, positions, queue names (1 byte, longer than a block, empty, multi-byte, NUL/slash/newline) from the menu; long-history seeds (aged log, 130-record queue, wrapped ring buffer).", "5 C05"),
 "C06": ("SEQ", "bounded-exhaustive op sequences with frame-event attribution vs. real directory listing",
         "After every truncate/delete_queue/open of every explored history (three policies) the directory listing is compared with the harness's own attribution of retained records to files (from frame events, independent of the implementation's reference counts); the same comparison is made after recovery from every crash point of the last op of every history of a crash profile (open after a crash).",
         "Two genuine defects found by this check (D4, D9) were repaired in /repo (fix: commits 386273a, 542df13); any excess file fails the check.", "5 C06, 6 D4 D9"),
 "C07": ("FRAME", "exhaustive grid (start offset x entry length x follower lengths) over the real record writer/reader on in-memory blocks, plus through-files sequences",
         "In the 64-byte-block geometry the whole cube of start offsets, entry lengths up to several blocks and followers is enumerated and round-tripped through the real RecordWriter/RecordReader and cross-checked against an independent frame encoder; boundary grid in the real geometry; through-file sequences at every file_end-k.",
         "Geometry reduction: same code, two constants changed; boundary grid in the real geometry.", "4.5, 5 C07"),
 "C08": ("DAMAGE", "exhaustive single-fault enumeration (every byte x value set, zero ranges, length retargeting) over all images of short histories",
         "Every byte of every WAL image of the bound is overwritten with each of 14 values, every zero-fill range and every length-field value is tried; after open every recovered record must be one that was appended.",
         "Single faults, contiguous ranges, multi-site alterations inside one frame, pairs of faults in two different frames; continuations after a damaged open (append + restart; append cut short by a crash). Two genuine defects are recorded as known findings (D7: length field not under the CRC; D10: torn append completed by stale frames). CRC collisions excluded by the property.", "4.3, 5 C08"),
 "C09": ("DAMAGE", "exhaustive frame-aimed damage (every payload/CRC byte of every frame) with entry-identity oracle",
         "For every frame of every image, every payload byte and CRC byte is altered; open must succeed and every retained record not appended by the damaged entry must be recovered intact.",
         "Frame table from the harness's own frame events. After the damaged open, one append per queue and a restart: everything recovered before plus the new records must be there.", "4.3, 5 C09"),
 "C10": ("DAMAGE", "exhaustive sequences of structural damage ops and crafted CRC-valid entries; panic/tick/allocation oracles",
         "All sequences up to k of block/file damage operations on the images, plus a grammar of CRC-valid crafted entries, are opened under catch_unwind, a deterministic tick budget and an allocation bound; then every read accessor is called.",
         "Arbitrary byte strings are covered as byte faults + crafted grammar, not all 2^512 blocks.", "4.3, 5 C10"),
 "C11": ("FAULT", "exhaustive I/O fault placement (every recovery-time fs call x once/forever x error kinds)",
         "For images spanning 1-3 files every read_dir/open/read call of recovery is failed, once or forever, with each error kind; open must return Err(IoError) within the tick budget, never Ok.",
         "Interrupted excluded (std retries); UnexpectedEof injected at the first read only (elsewhere a short file means no more blocks). Images: as written, one flipped byte, first file cut to 0 / half a block, a single empty wal-0.", "4.4, 5 C11"),
 "C12": ("CRASH+DAMAGE", "exhaustive crash points and frame damage restricted to batch appends, batch-integrity oracle",
         "Histories containing multi-record batches at all alignments (1-5 blocks, across two files, sub-record boundaries on frame boundaries), every crash point inside the call, every single-frame damage of the batch (payload, CRC, type, length) and the whole in-place fault menu anywhere in images where the queue was deleted and re-created; a recovered batch is whole or absent (minus a truncated head).",
         "Same crash/damage models as C02/C09; plus pairs: a checksum failure in an earlier entry combined with each fault on a batch frame.", "5 C12"),
 "C13": ("SEQ", "bounded-exhaustive op sequences; I/O-trace emptiness + metamorphic restart comparison for every rejected/no-op call",
         "For every rejected or no-op call in every explored history: the I/O and frame trace of the call is empty, bytes==0, state and flushed WAL bytes unchanged, and the history without those calls restarts to the same state. Two policies.",
         "Trusts the fs shim to see every write (all file access of the crate goes through it).", "5 C13"),
 "C14": ("SEQ", "bounded-exhaustive op sequences run in lock-step under 11 policy/clock configurations (differential, model-free)",
         "Every history incl. explicit persists is executed under each policy configuration (virtual clock for OnDelay); all outcomes, byte counts and observable states must agree pairwise, live and after restart.",
         "Model used only to resolve state-relative op arguments.", "5 C14"),
 "C15": ("SEQ", "bounded-exhaustive op sequences at every cursor alignment; byte accounting vs. frame and file-write events",
         "Per call wal_bytes_written must equal the frame+padding bytes handed to the writer and the bytes that reached the files; frames must be contiguous. Seeds put the cursor at every block_end-k/file_end-k and create GC work.",
         "Frame events come from one hook line in RollingWriter::write.", "5 C15"),
 "C16": ("SEQ", "bounded-exhaustive op sequences with memory-accounting inequalities after every call",
         "After every call of every explored history the accounting inequalities are evaluated against the model's retained bytes.",
         "'small constant per record' taken as 64 bytes; allocated only bounded below.", "5 C16"),
 "C17": ("SEQ", "bounded-exhaustive op sequences over directories pre-populated with foreign entries; fs-trace name oracle",
         "For each set of foreign entries (near-miss names, dirs, symlinks, valid-looking WAL content) every history with roll-over and GC runs; foreign entries must stay byte-identical, every created/removed/read name must be wal-<20 digits> and not foreign, and the model must still conform (numbering gaps included).",
         "Foreign-entry menu is finite (12 shapes).", "5 C17"),
 "C18": ("SEQ", "bounded-exhaustive op sequences, metamorphic projection H vs. H|q (model-free), with restarts and op-boundary crashes",
         "For every history over two queues and each queue q, the history and its projection on q are executed; q's observable state must agree after every op of q, after restarts and after recovering a copy of the live directory; crash variant: every crash point inside a call addressed to the other queue, followed by [append to q, restart] x 2, against the projected history crashed at the same boundary.",
         "Model used only to resolve state-relative op arguments.", "5 C18"),
}

BUILT = set(os.environ.get("BUILT", "C01 C02 C03 C04 C05 C06 C07 C08 C09 C10 C11 C12 C13 C14 C15 C16 C17 C18").split())


def main():
    props = [json.loads(l) for l in open(os.path.join(ROOT, "properties.jsonl"))]
    head = subprocess.check_output(["git", "-C", "/repo", "log", "--format=%h %s"], text=True).splitlines()
    hook_commits = [l.split()[0] for l in head if "verif hooks" in l]
    checks, na = [], []
    for p in props:
        pid = p["id"]
        eng, tech, text, note, ref = P[pid]
        if pid in BUILT:
            checks.append({
                "property_id": pid,
                "quick_cmd": "./check %s quick" % pid,
                "thorough_cmd": "./check %s thorough" % pid,
                "evidence_file": "/verif/evidence/%s.json" % pid,
                "replay_cmd_template": "./check replay {path}",
                "engine": "mrlmc/" + eng,
                "level_claimed": {"category": "model_checking", "text": text, "design_ref": "DESIGN.md section " + ref},
                "level_note": note,
                "technique": tech,
            })
        else:
            na.append({"property_id": pid, "reason": "not claimed yet: the %s engine for it is still under construction in this round (design in DESIGN.md section %s)" % (eng, ref)})
    m = {
        "version": 1,
        "setup_cmd": "./check setup",
        "hooks": {
            "guard": "mrecordlog_verif",
            "enable": "RUSTFLAGS='--cfg mrecordlog_verif [--cfg mrecordlog_verif_tiny]' (set by ./check; CARGO_TARGET_DIR=/verif/target/{tiny,real})",
            "baseline_off_cmd": "cd /repo && cargo test --workspace --no-fail-fast --offline",
            "source_commits": hook_commits,
            "add_only": True,
        },
        "engines": [
            {"name": "mrlmc", "path": "/verif/engine", "serves_properties": sorted(BUILT),
             "kind_free_text": "hand-rolled stateless bounded-exhaustive explorer of the real crate (SEQ / CRASH / DAMAGE / FAULT / FRAME engines) with a reference model, built per geometry with hooks on"}
        ],
        "checks": checks,
        "not_applicable": na,
        "notes": "Every check = ./check <id> <tier>: rebuilds the engine from /repo's working tree (both geometries), explores, writes evidence/<id>.json. Exit 0 held, 1 violation (VIOLATION lines), 2 machinery failure. KNOWN_FINDINGS.json lists recorded/fixed defects.",
    }
    json.dump(m, open(os.path.join(ROOT, "MANIFEST.json"), "w"), indent=1)
    print("checks:", len(checks), "not_applicable:", len(na))


if __name__ == "__main__":
    main()

#!/bin/bash
# tools/part.sh <geom> <prop> <tier>: run one engine part directly and summarise
g=$1; p=$2; t=$3
/verif/target/$g/release/mrlmc $p $t | python3 -c "
import json,sys
d=json.load(sys.stdin)
print({k:d[k] for k in ['evaluations','transitions','traces','states','distinct_nontrivial','wall_s','violations_total','violations_new','machinery_errors','diverged_histories','caps_hit']})
print(d['outcomes']); print(d['counters'])
for v in d['violation_lines'][:8]: print('VIOL',v['signature'], v['what'][:700], v['replay'])
for v in d['known_finding_lines'][:6]: print('KNOWN', v['signature'], v['cases_kept'])
"

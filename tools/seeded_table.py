#!/usr/bin/env python3
"""Writes seeded/<id>/meta.json and seeded/README.md from the agents' notes, the confirmation log
(seeded/VERIFY.log, written by selftest/verify_seed.sh) and the detection results
(seeded/RESULTS.<tier>.tsv, written by selftest/run_seeded.sh)."""
import glob, json, os, re
R = os.path.dirname(os.path.dirname(os.path.abspath(__file__)))
S = os.path.join(R, "seeded")
verify = {}
for line in open(os.path.join(S, "VERIFY.log")):
    m = re.match(r"SEEDVERIFY id=(\S+) status=(\S+)(.*)", line.strip())
    if m:
        verify[m.group(1)] = (m.group(2), m.group(3).strip())
results = {}
for f in sorted(glob.glob(os.path.join(S, "RESULTS.*.tsv"))):
    for line in open(f):
        p = line.rstrip("\n").split("\t")
        if len(p) >= 4:
            results.setdefault(p[0], []).append({"check": p[1], "tier": p[2], "exit": p[3], "signature": p[4] if len(p) > 4 else ""})
rows = []
for d in sorted(glob.glob(os.path.join(S, "C*"))):
    if not os.path.isdir(d):
        continue
    sid = os.path.basename(d)
    agent = {}
    ap = os.path.join(d, "meta.agent.json")
    if os.path.exists(ap):
        try:
            agent = json.load(open(ap))
        except Exception:
            agent = {}
    st, detail = verify.get(sid, ("?", ""))
    det = results.get(sid, [])
    meta = {
        "id": sid,
        "property": sid.split("-")[0],
        "summary": agent.get("summary", ""),
        "needs_to_manifest": agent.get("needs_to_manifest", ""),
        "why_existing_tests_pass": agent.get("why_tests_pass", ""),
        "origin": "written by an independent sub-agent that saw only the property text and a scratch worktree of /repo",
        "confirmed_by_me": {
            "how": "selftest/verify_seed.sh: scratch copy of /repo HEAD; patch applied; `cargo test --workspace --no-fail-fast --offline` (66 tests) with the patch; demo (seed_demo.rs as src/seed_demo.rs + `#[cfg(test)] mod seed_demo;`) with and without the patch",
            "status": st, "detail": detail,
        },
        "checks_run_against_it": det,
        "detected": any(x["exit"] == "1" for x in det),
    }
    json.dump(meta, open(os.path.join(d, "meta.json"), "w"), indent=1)
    caught = ", ".join("%s(%s)" % (x["check"], x["signature"]) for x in det if x["exit"] == "1") or "-"
    missed = ", ".join(x["check"] for x in det if x["exit"] != "1") or ""
    rows.append((sid, (agent.get("summary", "") or "").replace("\n", " ")[:150], caught, missed))
with open(os.path.join(S, "README.md"), "w") as f:
    f.write("# Seeded property-breaking changes\n\nEach directory: `patch.diff` (applies to /repo HEAD), `seed_demo.rs` (fails with the patch, passes without), `meta.json`.\nNone of them is ever applied to /repo; `selftest/run_seeded.sh [tier]` applies each to a scratch copy and runs the check of the property it breaks.\n\n| id | change | caught by (signature) | not caught by |\n|---|---|---|---|\n")
    for r in rows:
        f.write("| %s | %s | %s | %s |\n" % r)
print(len(rows), "seeds;", sum(1 for r in rows if r[2] != "-"), "caught")

use std::io::Write;
use crate::{MultiRecordLog, PersistPolicy};

fn names(dir: &std::path::Path) -> Vec<String> {
    let mut v: Vec<String> = std::fs::read_dir(dir).unwrap().map(|e| e.unwrap().file_name().into_string().unwrap()).collect();
    v.sort();
    v
}
fn copy_dir(src: &std::path::Path, dst: &std::path::Path) {
    for e in std::fs::read_dir(src).unwrap() { let e = e.unwrap(); std::fs::copy(e.path(), dst.join(e.file_name())).unwrap(); }
}

// D1: DoNothing policy: GC unlinks wal-0 while the superseding data is still in the BufWriter.
#[test]
fn d1_gc_before_flush() {
    let dir = tempfile::tempdir().unwrap();
    let mut log = MultiRecordLog::open_with_prefs(dir.path(), PersistPolicy::DoNothing).unwrap();
    log.create_queue("q").unwrap();
    for _ in 0..5 { log.append_record("q", None, &[7u8; 30_000][..]).unwrap(); }
    log.append_record("q", None, &b"x"[..]).unwrap();
    log.truncate("q", ..=4).unwrap();
    // process crash image: copy of what reached the OS now.
    let img = tempfile::tempdir().unwrap();
    copy_dir(dir.path(), img.path());
    eprintln!("files at crash: {:?}", names(img.path()));
    let rec = MultiRecordLog::open(img.path()).unwrap();
    assert!(rec.queue_exists("q"), "queue q, whose creation was persisted, vanished after crash");
}

// D2: 0-byte next file reused unsized.
#[test]
fn d2_unsized_next_file() {
    let dir = tempfile::tempdir().unwrap();
    {
        let mut log = MultiRecordLog::open(dir.path()).unwrap();
        log.create_queue("q").unwrap();
        for _ in 0..4 { log.append_record("q", None, &[7u8; 30_000][..]).unwrap(); }
    }
    // crash between create_new and set_len of wal-1
    std::fs::File::create(dir.path().join("wal-00000000000000000001")).unwrap();
    {
        let mut log = MultiRecordLog::open(dir.path()).unwrap();
        assert_eq!(log.last_position("q").unwrap(), Some(3));
        log.append_record("q", None, &[8u8; 30_000][..]).unwrap(); // 4 -> may roll
        log.append_record("q", None, &[9u8; 100][..]).unwrap(); // 5
        eprintln!("files: {:?} len1={}", names(dir.path()), std::fs::metadata(dir.path().join("wal-00000000000000000001")).unwrap().len());
    }
    let log = MultiRecordLog::open(dir.path()).unwrap();
    assert_eq!(log.last_position("q").unwrap(), Some(5), "appends after recovery lost after clean restart");
}

// D3: 0-byte wal-0
#[test]
fn d3_unsized_first_file() {
    let dir = tempfile::tempdir().unwrap();
    std::fs::File::create(dir.path().join("wal-00000000000000000000")).unwrap();
    let r = MultiRecordLog::open(dir.path());
    assert!(r.is_ok(), "open failed: {:?}", r.err());
}

// D5: unreadable second file -> spin
#[test]
fn d5_io_error_spins() {
    let dir = tempfile::tempdir().unwrap();
    {
        let mut log = MultiRecordLog::open(dir.path()).unwrap();
        log.create_queue("q").unwrap();
        for _ in 0..6 { log.append_record("q", None, &[7u8; 30_000][..]).unwrap(); }
    }
    eprintln!("files: {:?}", names(dir.path()));
    // make wal-1 a dangling symlink?? must be regular file for the scan; replace by a directory is not a file. Use a FIFO-less trick: a file we cannot open: (root ignores chmod) -> use a symlink loop is not is_file. Instead: replace with a dir after scan impossible. So use setuid? skip: emulate by /proc/self/mem-like? 
    let p = dir.path().join("wal-00000000000000000001");
    use std::os::unix::fs::PermissionsExt;
    std::fs::set_permissions(&p, std::fs::Permissions::from_mode(0o000)).unwrap();
    let is_root = unsafe { libc_geteuid() } == 0;
    eprintln!("root={}", is_root);
    let (tx, rx) = std::sync::mpsc::channel();
    let path = dir.path().to_path_buf();
    std::thread::spawn(move || { let r = MultiRecordLog::open(&path); let _ = tx.send(r.is_ok()); });
    let r = rx.recv_timeout(std::time::Duration::from_secs(5));
    assert!(r.is_ok(), "open did not return within 5s");
    let _ = std::io::stderr().flush();
}
extern "C" { #[link_name = "geteuid"] fn libc_geteuid() -> u32; }

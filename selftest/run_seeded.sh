#!/bin/bash
# Runs the quick (or given tier) check of the broken property against every kept seeded change
# (each applied to a scratch copy of /repo HEAD, never to /repo). Writes seeded/RESULTS.tsv.
tier=${1:-quick}
out=/verif/seeded/RESULTS.$tier.tsv
: > $out.tmp
run_one() {
  d=$1; tier=$2
  id=$(basename $d); prop=${id%%-*}
  extra=""
  [ -f $d/also_check ] && extra=$(cat $d/also_check)
  for p in $prop $extra; do
    line=$(/verif/selftest/try_patch.sh $d/patch.diff $tier $p 2>&1 | grep '^RESULT' | head -1)
    rc=$(echo "$line" | sed -n 's/.* exit=\([0-9]*\) .*/\1/p')
    sig=$(echo "$line" | sed -n 's/.*:: *\[[^]]*\] \([^:]*\):.*/\1/p')
    printf "%s\t%s\t%s\t%s\t%s\n" "$id" "$p" "$tier" "${rc:-?}" "${sig:-}" 
  done
}
export -f run_one
# 4 slots, each with its own fixed scratch path so that only the crate and the engine are rebuilt
ls -d /verif/seeded/C*/ | sed 's:/$::' | awk '{print NR%4, $0}' > $out.list
for slot in 0 1 2 3; do
  ( grep "^$slot " $out.list | cut -d' ' -f2 | while read d; do TRY_SLOT=$slot run_one $d $tier; done >> $out.tmp.$slot ) &
done
wait
cat $out.tmp.0 $out.tmp.1 $out.tmp.2 $out.tmp.3 >> $out.tmp; rm -f $out.tmp.? $out.list
rm -rf /verif/target/alt
sort $out.tmp > $out; rm $out.tmp
cat $out

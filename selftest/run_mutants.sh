#!/bin/bash
# Reverted fixes must be reported again by the check that owns them (a "fixed" entry in
# KNOWN_FINDINGS.json suppresses nothing). Each is applied to a scratch copy of /repo's HEAD.
cd /verif
fail=0
for m in selftest/mutants/revert_fix_*.patch; do
  prop=$(basename $m .patch | sed 's/.*_\(C[0-9]*\)$/\1/')
  line=$(selftest/try_patch.sh $m quick $prop | grep '^RESULT' | head -1)
  echo "$line" | cut -c1-300
  case "$line" in *"exit=1 "*) ;; *) fail=1;; esac
done
exit $fail

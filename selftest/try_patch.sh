#!/bin/bash
# usage: try_patch.sh <patch.diff> <tier> <property>...
# Applies the patch to a scratch copy of /repo's HEAD (never to /repo), runs the given checks
# against it through VERIF_REPO, prints one line per check, removes the copy.
set -u
patch=$(readlink -f "$1"); tier=$2; shift 2
# TRY_SLOT=<n>: reuse a fixed scratch path (and so the cached dependency builds) for this slot
if [ -n "${TRY_SLOT:-}" ]; then work=/tmp/trypatch_slot_$TRY_SLOT; rm -rf "$work"; mkdir -p "$work"; else work=$(mktemp -d /tmp/trypatch.XXXXXX); fi
git -C /repo archive HEAD | tar -x -C "$work"
if ! git -C "$work" init -q 2>/dev/null; then :; fi
( cd "$work" && git apply "$patch" >/dev/null 2>&1 ) || { echo "PATCH-DOES-NOT-APPLY $patch"; rm -rf "$work"; exit 3; }
for prop in "$@"; do
  out=$(cd /verif && VERIF_REPO="$work" VERIF_EVIDENCE_DIR="$work/evidence" ./check "$prop" "$tier" 2>&1)
  rc=$?
  nv=$(echo "$out" | grep -c '^VIOLATION')
  first=$(echo "$out" | grep -A1 '^VIOLATION' | sed -n 2p | cut -c1-300)
  echo "RESULT patch=$(basename $(dirname $patch))/$(basename $patch) prop=$prop tier=$tier exit=$rc violations=$nv :: $first"
  [ $rc -eq 2 ] && echo "$out" | grep MACHINERY | head -3
done
tag=$(python3 -c "import hashlib,sys;print(hashlib.sha1(sys.argv[1].encode()).hexdigest()[:12])" "$work")
if [ -n "${TRY_SLOT:-}" ]; then rm -rf "$work"; else rm -rf "$work" "/verif/target/alt/$tag"; fi

#!/bin/bash
# usage: verify_seed.sh <candidate dir with patch.diff seed_demo.rs meta.json> <id> [slot]
# Confirms in a scratch copy of /repo's HEAD (never in /repo): the patch applies, the unedited
# suite passes with it (66 tests), the demo fails with it and passes without it.
# On success stores /verif/seeded/<id>/{patch.diff,seed_demo.rs,meta.json}.
set -u
cand=$(readlink -f "$1"); id=$2; slot=${3:-0}
work=$(mktemp -d /tmp/seedverify.XXXXXX)
export CARGO_TARGET_DIR=/tmp/seedverify_target_$slot
git -C /repo archive HEAD | tar -x -C "$work"
cd "$work"
git init -q . && git add -A >/dev/null && git -c user.email=x -c user.name=x commit -qm base
res() { echo "SEEDVERIFY id=$id $*"; }
if ! git apply "$cand/patch.diff" >/dev/null 2>&1; then res "status=PATCH_DOES_NOT_APPLY"; cd /; rm -rf "$work"; exit 1; fi
git diff > "$work/normalized.diff"
suite=$(cargo test --workspace --no-fail-fast --offline 2>&1 | grep -E "^test result" | head -1)
case "$suite" in *"66 passed; 0 failed"*) ;; *) res "status=SUITE_FAILS_WITH_PATCH suite='$suite'"; cd /; rm -rf "$work"; exit 1;; esac
cp "$cand/seed_demo.rs" src/seed_demo.rs
printf '\n#[cfg(test)]\nmod seed_demo;\n' >> src/lib.rs
with=$(cargo test --offline --lib seed_demo 2>&1 | grep -E "^test result|^error" | head -1)
patch -p1 -R -s < "$work/normalized.diff" >/dev/null 2>&1 || { res "status=CANNOT_REVERT"; cd /; rm -rf "$work"; exit 1; }
without=$(cargo test --offline --lib seed_demo 2>&1 | grep -E "^test result|^error" | head -1)
ok=1
case "$with" in *"FAILED"*) ;; *) ok=0;; esac
case "$without" in *"test result: ok"*) ;; *) ok=0;; esac
case "$without" in *" 0 passed"*) ok=0;; esac
if [ $ok -eq 1 ]; then
  mkdir -p /verif/seeded/$id
  cp "$work/normalized.diff" /verif/seeded/$id/patch.diff
  cp "$cand/seed_demo.rs" /verif/seeded/$id/seed_demo.rs
  cp "$cand/meta.json" /verif/seeded/$id/meta.agent.json 2>/dev/null
  res "status=CONFIRMED suite='$suite' demo_with='$with' demo_without='$without'"
else
  res "status=DEMO_NOT_DISCRIMINATING demo_with='$with' demo_without='$without'"
fi
cd /; rm -rf "$work"

#!/bin/bash
# Behaviour-preserving changes (more flushing, fsync instead of fdatasync, bigger buffer, sorted GC
# position entries, eager roll-over ...): every check must stay silent on them.
# Writes selftest/benign/RESULTS.tsv; exit 1 if any check raised an alarm.
cd /verif
out=selftest/benign/RESULTS.tsv
: > $out.tmp
props="C01 C02 C03 C04 C05 C06 C07 C08 C09 C10 C11 C12 C13 C14 C15 C16 C17 C18"
i=0
for p in selftest/benign/*.patch; do
  slot=$((i % 3)); i=$((i+1))
  ( TRY_SLOT=b$slot selftest/try_patch.sh $p quick $props | grep '^RESULT' | sed -n 's/^RESULT patch=\([^ ]*\) prop=\([^ ]*\) tier=[^ ]* exit=\([0-9]*\) violations=\([0-9]*\) :: *\(.*\)$/\1\t\2\t\3\t\4\t\5/p' >> $out.tmp.$slot ) &
  if [ $((i % 3)) -eq 0 ]; then wait; fi
done
wait
cat $out.tmp.* > $out 2>/dev/null; rm -f $out.tmp*
rm -rf /verif/target/alt
awk -F'\t' '$3!="0"' $out
if awk -F'\t' '$3!="0"{f=1} END{exit !f}' $out; then exit 1; fi
echo "all silent: $(wc -l < $out) check runs"

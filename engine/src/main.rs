//! mrlmc: bounded-exhaustive exploration of the real mrecordlog code.
//!
//!   mrlmc <property> <quick|thorough> --out <part.json>
//!   mrlmc replay <replay.json>
#![allow(dead_code)]
mod crash;
mod damage;
mod exec;
mod fault;
mod frame;
mod model;
mod ops;
mod props;
mod report;
mod seeds;
mod seq;

use std::path::PathBuf;

#[global_allocator]
static GLOBAL: damage::CountingAlloc = damage::CountingAlloc;

pub fn geometry_name() -> &'static str {
    if ops::TINY {
        "tiny(64Bx4)"
    } else {
        "real(32KiBx4)"
    }
}

fn main() {
    let args: Vec<String> = std::env::args().collect();
    if args.len() < 3 {
        eprintln!("usage: mrlmc <property> <quick|thorough> [--out file] | mrlmc replay <file>");
        std::process::exit(2);
    }
    seq::install_quiet_panic_hook();
    if args[1] == "debug-seeds" {
        debug_seeds();
        return;
    }
    let code = if args[1] == "replay" {
        props::replay(&args[2])
    } else {
        let property = args[1].clone();
        let tier = args[2].clone();
        let mut out: Option<PathBuf> = None;
        let mut i = 3;
        while i < args.len() {
            if args[i] == "--out" && i + 1 < args.len() {
                out = Some(PathBuf::from(&args[i + 1]));
                i += 1;
            }
            i += 1;
        }
        let seed: u64 = std::env::var("VERIF_SEED")
            .ok()
            .and_then(|s| s.parse().ok())
            .unwrap_or(0);
        let verif_root = std::env::var("VERIF_ROOT").unwrap_or_else(|_| "/verif".to_string());
        let known = report::load_known(&format!("{}/KNOWN_FINDINGS.json", verif_root));
        let _ = report::KNOWN_SIGNATURES.set(known.iter().filter(|k| k.status == "known").map(|k| (k.property.clone(), k.signature.clone())).collect());
        let replay_dir = PathBuf::from(std::env::var("VERIF_REPLAY_DIR").unwrap_or_else(|_| format!("{}/replays", verif_root)));
        let limit: u64 = std::env::var("VERIF_WATCHDOG_S").ok().and_then(|s| s.parse().ok()).unwrap_or(180);
        report::watchdog_start(property.clone(), tier.clone(), seed, out.clone(), replay_dir, limit);
        let mut part = report::Part::new(&property, &tier, seed);
        props::run(&mut part);
        let (json, code) = part.to_json(
            &PathBuf::from(
                std::env::var("VERIF_REPLAY_DIR")
                    .unwrap_or_else(|_| format!("{}/replays", verif_root)),
            ),
            &known,
        );
        let text = serde_json::to_string_pretty(&json).unwrap();
        match out {
            Some(p) => std::fs::write(p, text).expect("write part file"),
            None => println!("{}", text),
        }
        code
    };
    exec::cleanup_scratch_base();
    std::process::exit(code);
}

#[allow(dead_code)]
pub fn debug_seeds() {
    for (b, k) in [(3usize, 0usize), (3, 7), (3, 10), (2, 0)] {
        println!("straddle({},{}) -> {:?}", b, k, seeds::seed_straddle(b, k).map(|s| (s.name, s.ops.len())));
    }
    for r in [0usize, 8, 10, 19, 30] {
        println!("all_dead({}) -> {:?}", r, seeds::seed_all_dead_single_file(r).map(|s| (s.name, s.ops.len())));
    }
}

fn main() { println!("{}", mrecordlog::BLOCK_NUM_BYTES); }

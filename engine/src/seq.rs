//! SEQ engine: exhaustive operation sequences on the real code, compared with the reference
//! model (or differentially), with per-property monitors.
use std::collections::BTreeMap;
use std::panic::{catch_unwind, AssertUnwindSafe};
use std::sync::atomic::{AtomicUsize, Ordering};
use std::sync::Mutex;

use mrecordlog::verif_hooks as vh;
use mrecordlog::verif_hooks::Event;
use serde_json::json;

use crate::exec::*;
use crate::model::*;
use crate::ops::*;
use crate::report::*;
use crate::seeds::Seed;

pub struct Env {
    pub scratch: Scratch,
    pub scratch2: Scratch,
    pub stats: Stats,
}

impl Env {
    pub fn new() -> Env {
        Env {
            scratch: Scratch::new(),
            scratch2: Scratch::new(),
            stats: Stats::default(),
        }
    }
}

pub const BIG_TICKS: u64 = 50_000_000;

pub fn reset_hooks(hash_seed: u64, trace: bool) {
    crate::report::watchdog_beat();
    vh::set_hash_seed(hash_seed);
    vh::set_clock_ns(0);
    vh::set_fault(None);
    vh::reset_counters();
    vh::set_tick_budget(BIG_TICKS);
    if trace {
        vh::trace_start();
    } else {
        vh::trace_stop();
    }
}

pub struct StepRec {
    pub cop: COp,
    pub expected: Outcome,
    pub got: Outcome,
    pub bytes: Option<u64>,
    pub events: Vec<Event>,
}

/// One execution of a history on the real code, in lock-step with the model.
pub struct Run {
    pub subject: Subject,
    pub model: Model,
    pub resolver: Resolver,
    pub trace: bool,
    pub open_events: Vec<Event>,
}

impl Run {
    pub fn start(
        dir: &std::path::Path,
        policy: PolicyCfg,
        hash_seed: u64,
        trace: bool,
        names: Vec<String>,
    ) -> Result<Run, String> {
        reset_hooks(hash_seed, trace);
        let subject = Subject::open(dir, policy).map_err(|e| format!("initial open failed: {e}"))?;
        let open_events = if trace { vh::trace_take() } else { vec![] };
        Ok(Run {
            subject,
            model: Model::default(),
            resolver: Resolver::new(names),
            trace,
            open_events,
        })
    }

    pub fn step(&mut self, op: &Op) -> StepRec {
        let cop = self.resolver.resolve(op, &self.model);
        self.step_concrete(cop)
    }

    pub fn step_concrete(&mut self, cop: COp) -> StepRec {
        let expected = self.model.apply(&cop);
        let (got, bytes) = self.subject.apply(&cop);
        let events = if self.trace { vh::trace_take() } else { vec![] };
        StepRec {
            cop,
            expected,
            got,
            bytes,
            events,
        }
    }
}

thread_local! {
    static PANIC_MSG: std::cell::RefCell<String> = const { std::cell::RefCell::new(String::new()) };
}

pub fn install_quiet_panic_hook() {
    std::panic::set_hook(Box::new(|info| {
        let msg = if info.payload().downcast_ref::<vh::Livelock>().is_some() {
            "tick budget exhausted (livelock)".to_string()
        } else if let Some(s) = info.payload().downcast_ref::<&str>() {
            s.to_string()
        } else if let Some(s) = info.payload().downcast_ref::<String>() {
            s.clone()
        } else {
            "panic".to_string()
        };
        let loc = info
            .location()
            .map(|l| format!(" at {}:{}", l.file(), l.line()))
            .unwrap_or_default();
        if std::env::var("VERIF_DEBUG_PANIC").is_ok() {
            eprintln!("panic: {}{}", msg, loc);
        }
        PANIC_MSG.with(|m| *m.borrow_mut() = format!("{}{}", msg, loc));
    }));
}

pub fn take_panic_msg() -> String {
    PANIC_MSG.with(|m| std::mem::take(&mut *m.borrow_mut()))
}

/// Runs `f`, turning a panic into Err(message). A `Livelock` unwinding is reported as such.
pub fn guarded<T>(f: impl FnOnce() -> T) -> Result<T, String> {
    match catch_unwind(AssertUnwindSafe(f)) {
        Ok(v) => Ok(v),
        Err(_) => {
            vh::set_tick_budget(u64::MAX);
            Err(format!("panic: {}", take_panic_msg()))
        }
    }
}

// ---------------------------------------------------------------------------------------------
// exhaustive enumeration of op sequences, in parallel

#[derive(Clone)]
pub struct Profile {
    pub name: String,
    pub seeds: Vec<Seed>,
    pub alphabet: Vec<Op>,
    pub depth: usize,
}

impl Profile {
    pub fn describe(&self) -> serde_json::Value {
        json!({
            "profile": self.name,
            "seeds": self.seeds.iter().map(|s| json!({"name": s.name, "ops": s.ops.len()})).collect::<Vec<_>>(),
            "alphabet": self.alphabet.iter().map(|o| o.short()).collect::<Vec<_>>(),
            "alphabet_size": self.alphabet.len(),
            "depth": self.depth,
            "sequences": (self.alphabet.len() as u64).pow(self.depth as u32) * self.seeds.len() as u64,
        })
    }
}

/// One leaf of the exploration tree: the seed, the op suffix, and from which step (0-based
/// index into the suffix) the heavy checks are due (each prefix gets them exactly once over the
/// whole exploration: in the leaf that continues it with the first letter only).
pub struct Leaf<'a> {
    pub seed: &'a Seed,
    pub seed_idx: usize,
    pub idx: &'a [usize],
    pub ops: Vec<&'a Op>,
    pub heavy_from: usize,
    /// true for exactly one leaf per seed: heavy checks on the seed's own steps
    pub heavy_seed: bool,
}

pub fn num_threads() -> usize {
    std::env::var("VERIF_THREADS")
        .ok()
        .and_then(|s| s.parse().ok())
        .unwrap_or_else(|| {
            std::thread::available_parallelism()
                .map(|n| n.get())
                .unwrap_or(4)
        })
}

fn shuffle<T>(v: &mut [T], seed: u64) {
    let mut x = seed.wrapping_mul(0x9E3779B97F4A7C15) | 1;
    for i in (1..v.len()).rev() {
        x ^= x << 13;
        x ^= x >> 7;
        x ^= x << 17;
        let j = (x % (i as u64 + 1)) as usize;
        v.swap(i, j);
    }
}

/// Calls `f` on every leaf of every profile. Returns merged stats.
pub fn explore<F>(profiles: &[Profile], seed: u64, f: F) -> Stats
where
    F: Fn(&mut Env, &Leaf) + Sync,
{
    for p in profiles {
        // a profile without seeds explores nothing: never silently
        assert!(!p.seeds.is_empty(), "profile '{}' has no seed (planner could not build any)", p.name);
    }
    // work items: (profile, seed, fixed prefix of up to 2 letters)
    let mut items: Vec<(usize, usize, Vec<usize>)> = vec![];
    for (pi, p) in profiles.iter().enumerate() {
        let plen = p.depth.min(2);
        let n = p.alphabet.len();
        for si in 0..p.seeds.len() {
            let mut prefix = vec![0usize; plen];
            loop {
                items.push((pi, si, prefix.clone()));
                let mut k = plen;
                loop {
                    if k == 0 {
                        break;
                    }
                    k -= 1;
                    prefix[k] += 1;
                    if prefix[k] < n {
                        break;
                    }
                    prefix[k] = 0;
                    if k == 0 {
                        k = usize::MAX;
                        break;
                    }
                }
                if k == usize::MAX || plen == 0 {
                    break;
                }
            }
        }
    }
    shuffle(&mut items, seed);
    let next = AtomicUsize::new(0);
    let merged = Mutex::new(Stats::default());
    let threads = num_threads();
    std::thread::scope(|scope| {
        for _ in 0..threads {
            scope.spawn(|| {
                let mut env = Env::new();
                loop {
                    let i = next.fetch_add(1, Ordering::SeqCst);
                    if i >= items.len() {
                        break;
                    }
                    if crate::report::STOP_EXPLORATION.load(Ordering::SeqCst) {
                        env.stats.count("work_items_skipped_after_too_many_violations", 1);
                        continue;
                    }
                    let (pi, si, prefix) = &items[i];
                    let p = &profiles[*pi];
                    let n = p.alphabet.len();
                    let mut idx = vec![0usize; p.depth];
                    idx[..prefix.len()].copy_from_slice(prefix);
                    // (once per work item, not per leaf: the description is only needed if the
                    // watchdog fires)
                    crate::report::watchdog_leaf(|| {
                        json!({"seed_name": p.seeds[*si].name, "seed_ops": p.seeds[*si].ops,
                               "ops": prefix.iter().map(|i| &p.alphabet[*i]).collect::<Vec<_>>(),
                               "note": format!("one of the histories of profile '{}' that start with these ops (depth {})", p.name, p.depth)}).to_string()
                    });
                    loop {
                        // heavy_from: smallest k such that idx[k+1..] are all zero
                        let mut heavy_from = p.depth;
                        while heavy_from > 0 && idx[heavy_from - 1] == 0 {
                            heavy_from -= 1;
                        }
                        let heavy_seed = heavy_from == 0;
                        let heavy_from = heavy_from.saturating_sub(1);
                        let leaf = Leaf {
                            seed: &p.seeds[*si],
                            seed_idx: *si,
                            idx: &idx,
                            ops: idx.iter().map(|i| &p.alphabet[*i]).collect(),
                            heavy_from,
                            heavy_seed,
                        };
                        f(&mut env, &leaf);
                        if env.stats.unknown_violation_count >= crate::report::STOP_AFTER_VIOLATIONS {
                            crate::report::STOP_EXPLORATION.store(true, Ordering::SeqCst);
                            break;
                        }
                        // next suffix
                        let mut k = p.depth;
                        let mut done = false;
                        loop {
                            if k == prefix.len() {
                                done = true;
                                break;
                            }
                            k -= 1;
                            idx[k] += 1;
                            if idx[k] < n {
                                break;
                            }
                            idx[k] = 0;
                        }
                        if done {
                            break;
                        }
                    }
                }
                crate::report::watchdog_idle();
                merged.lock().unwrap().merge(std::mem::take(&mut env.stats));
            });
        }
    });
    merged.into_inner().unwrap()
}

// ---------------------------------------------------------------------------------------------
// the single-run monitors

#[derive(Clone, Debug, Default)]
pub struct Monitors {
    pub property: &'static str,
    /// queue names table (index = queue id in ops); None = default a, b, zz, f
    pub names: Option<Vec<String>>,
    pub policy: Option<PolicyCfg>,
    pub hash_seed: u64,
    /// outcome / state divergence from the model is a violation of this property
    pub conformance: bool,
    /// all read accessors, all range-bound shapes (C05) at heavy steps
    pub accessors: bool,
    /// observable state == model after every Reopen (C01)
    pub reopen_state: bool,
    /// append Reopen (+ state check) at the end of every history
    pub final_reopen: bool,
    /// after the final Reopen, one auto append per queue must get the model's next position
    pub final_appends: bool,
    pub c04: bool,
    pub c06: bool,
    pub c13: bool,
    pub c15: bool,
    pub c16: bool,
    pub trace: bool,
}

pub fn leaf_case(leaf: &Leaf, mon: &Monitors) -> serde_json::Value {
    json!({
        "engine": "seq",
        "policy": mon.policy.unwrap_or(PolicyCfg::Default),
        "hash_seed": mon.hash_seed,
        "long_names": mon.names.is_some(),
        "names": mon.names.as_ref().map(|n| n.iter().take(4).cloned().collect::<Vec<_>>()),
        "seed_name": leaf.seed.name,
        "seed_ops": leaf.seed.ops,
        "ops": leaf.ops,
    })
}

struct FileAttr {
    /// (queue, position) -> file that received the first byte the appending call wrote
    attr: BTreeMap<(String, u64), u64>,
    /// (queue, position) -> true if that first byte was at offset 0 and no padding preceded it
    at_file_start: BTreeMap<(String, u64), bool>,
    cur_file: u64,
    last_end_abs: Option<u64>,
}

fn mutation_events(events: &[Event]) -> Vec<String> {
    events
        .iter()
        .filter_map(|e| match e {
            Event::Write { name, offset, data } => {
                Some(format!("write({},{},{}B)", name, offset, data.len()))
            }
            Event::SetLen { name, len } => Some(format!("set_len({},{})", name, len)),
            Event::Open {
                name,
                create_new: true,
                ..
            } => Some(format!("create({})", name)),
            Event::Unlink { name } => Some(format!("unlink({})", name)),
            Event::BlockWrite {
                file_number,
                offset,
                len,
                ..
            } => Some(format!("block_write({},{},{}B)", file_number, offset, len)),
            _ => None,
        })
        .collect()
}

/// Runs one leaf with the requested monitors. Violations go to env.stats.
pub fn run_leaf(env: &mut Env, leaf: &Leaf, mon: &Monitors) {
    env.stats.evaluations += 1;
    env.stats.traces += 1;
    env.scratch.reset();
    let dir = env.scratch.path.clone();
    let dir2 = env.scratch2.path.clone();
    if mon.c13 {
        env.scratch2.reset();
    }
    let stats = &mut env.stats;
    let res = guarded(|| {
        let mut done: Vec<(COp, bool)> = vec![];
        run_leaf_inner(stats, &dir, leaf, mon, &mut done)?;
        if mon.c13 {
            c13_after_restart(stats, &dir, &dir2, mon, &done)?;
        }
        Ok(())
    });
    let fail = match res {
        Ok(Ok(())) => None,
        Ok(Err((sig, what))) => Some((sig, what)),
        Err(p) => Some(("panic".to_string(), p)),
    };
    if let Some((sig, what)) = fail {
        if sig == "diverged" {
            env.stats.diverged += 1;
            if std::env::var("VERIF_DEBUG_DIVERGED").is_ok() {
                eprintln!("diverged {}", what);
            }
            return;
        }
        env.stats.violation(Violation {
            property: mon.property.to_string(),
            signature: sig,
            what,
            case: leaf_case(leaf, mon),
        });
    } else if leaf.idx.iter().sum::<usize>() % 97 == 5 {
        env.stats.sample(|| {
            json!({"engine": "seq", "policy": mon.policy.unwrap_or(PolicyCfg::Default).name(), "seed": leaf.seed.name,
                   "seed_ops": leaf.seed.ops.len(), "ops": leaf.ops.iter().map(|o| o.short()).collect::<Vec<_>>(), "verdict": "every monitor held after every op"})
        });
    }
}

type Fail = (String, String);

fn fail<T>(sig: &str, what: String) -> Result<T, Fail> {
    Err((sig.to_string(), what))
}

/// C13, metamorphic: the history without its rejected / no-op calls must lead to the same
/// state after a restart as the history with them.
fn c13_after_restart(
    stats: &mut Stats,
    dir: &std::path::Path,
    dir2: &std::path::Path,
    mon: &Monitors,
    done: &[(COp, bool)],
) -> Result<(), Fail> {
    if !done.iter().any(|d| d.1) {
        return Ok(());
    }
    let policy = mon.policy.unwrap_or(PolicyCfg::Default);
    let mut run2 = Run::start(dir2, policy, mon.hash_seed, false, default_names())
        .map_err(|e| ("open-failed".to_string(), e))?;
    for (cop, rejected) in done {
        if !*rejected {
            run2.step_concrete(cop.clone());
            stats.transitions += 1;
        }
    }
    drop(run2);
    reset_hooks(mon.hash_seed, false);
    let with = open_log(dir, policy).map_err(|e| ("open-failed".to_string(), e.to_string()))?;
    let without = open_log(dir2, policy).map_err(|e| ("open-failed".to_string(), e.to_string()))?;
    let a = observe(&with);
    let b = observe(&without);
    stats.count("restart_comparisons_with_vs_without_rejected_calls", 1);
    if a != b {
        return fail(
            "rejected-call-visible-after-restart",
            format!("after a restart the history with its rejected/no-op calls yields {} but without them {}", obs_summary(&a), obs_summary(&b)),
        );
    }
    Ok(())
}

fn run_leaf_inner(
    stats: &mut Stats,
    dir: &std::path::Path,
    leaf: &Leaf,
    mon: &Monitors,
    done: &mut Vec<(COp, bool)>,
) -> Result<(), Fail> {
    let policy = mon.policy.unwrap_or(PolicyCfg::Default);
    let trace = mon.trace || mon.c06 || mon.c13 || mon.c15;
    let names = mon.names.clone().unwrap_or_else(default_names);
    let mut run = Run::start(dir, policy, mon.hash_seed, trace, names.clone())
        .map_err(|e| ("open-failed".to_string(), e))?;
    let mut fa = FileAttr {
        attr: BTreeMap::new(),
        at_file_start: BTreeMap::new(),
        cur_file: 0,
        last_end_abs: Some(0),
    };
    let mut hi: BTreeMap<String, Option<u64>> = BTreeMap::new();
    let mut cum_bytes: u64 = 0;
    let seed_len = leaf.seed.ops.len();
    let total = seed_len + leaf.ops.len();
    let mut final_ops: Vec<Op> = vec![];
    if mon.final_reopen {
        final_ops.push(Op::Reopen);
        if mon.final_appends {
            for q in [QA, QB, QF] {
                final_ops.push(Op::app(q, Pos::Auto, Sz::S1));
            }
        }
    }
    for i in 0..total + final_ops.len() {
        let (op, heavy): (&Op, bool) = if i < seed_len {
            (&leaf.seed.ops[i], leaf.heavy_seed)
        } else if i < total {
            (leaf.ops[i - seed_len], i - seed_len >= leaf.heavy_from)
        } else {
            (&final_ops[i - total], true)
        };
        let in_final = i >= total;
        let model_before = if mon.c16 || mon.c06 {
            Some(run.model.clone())
        } else {
            None
        };
        let obs_before = if mon.c13 { Some(run.subject.observe()) } else { None };
        // (under the OnDelay configurations the comparison of file contents is left out: it needs a
        // flush by the harness, which would hide a rejected call that flushes what earlier calls left
        // in the buffer; the trace check below still sees every write)
        let on_delay = matches!(mon.policy, Some(PolicyCfg::DelayAltFlush | PolicyCfg::DelayAltFlush1 | PolicyCfg::DelayMod3Flush0 | PolicyCfg::DelayMod3Flush1 | PolicyCfg::DelayMod3Flush2));
        let files_before = if mon.c13 && heavy && !on_delay {
            let _ = run.subject.log.as_mut().unwrap().persist(mrecordlog::PersistAction::Flush);
            if trace {
                let _ = vh::trace_take();
            }
            Some(read_wal_files(dir))
        } else {
            None
        };
        let used_before = if mon.c16 {
            Some(run.subject.log().resource_usage().memory_used_bytes)
        } else {
            None
        };
        let begin_file = fa.cur_file;
        let rec = run.step(op);
        stats.transitions += 1;
        if i >= seed_len && !in_final {
            stats.outcome(rec.got.label());
        }
        if let Outcome::Err(ErrKind::Io(e)) = &rec.got {
            return fail("io-error", format!("step {} {}: unexpected I/O error {}", i, op.short(), e));
        }
        let c16_under_evicted = mon.c16 && matches!((&rec.got, &rec.expected), (Outcome::Truncated(g), Outcome::Truncated(e)) if g < e);
        // C04's monitor is model-free (it follows the positions the implementation itself reports):
        // it still judges the step at which the outcome departs from the model, then the history ends
        // (C04 does not ask whether a queue with an over-long name may be created - C05 does -
        // but what that does to the positions of the other queues: the history goes on with it)
        if mon.c04 && !mon.conformance && rec.got == Outcome::Created && rec.expected == Outcome::Err(ErrKind::NameTooLong) {
            if let COp::Create(name) = &rec.cop {
                run.model.queues.insert(name.clone(), Default::default());
            }
        }
        let oversize_created = mon.c04 && !mon.conformance && rec.got == Outcome::Created && rec.expected == Outcome::Err(ErrKind::NameTooLong);
        let c04_diverged = mon.c04 && rec.got != rec.expected && !mon.conformance && !oversize_created;
        if rec.got != rec.expected && !(mon.c13 && rec.expected.is_rejected_or_noop()) && !c16_under_evicted && !c04_diverged && !oversize_created {
            if mon.conformance {
                return fail(
                    "outcome-mismatch",
                    format!(
                        "step {} {}: returned {:?}, model says {:?}",
                        i,
                        op.short(),
                        rec.got,
                        rec.expected
                    ),
                );
            }
            return fail("diverged", format!("(seq.rs:{})", line!()));
        }
        if let Some(b) = rec.bytes {
            cum_bytes += b;
        }
        if mon.c13 {
            done.push((rec.cop.clone(), rec.expected.is_rejected_or_noop()));
        }
        // ---- C04: positions never regress or get reused (model-free)
        if mon.c04 {
            match (&rec.cop, &rec.got) {
                (COp::Create(q), Outcome::Created) => {
                    hi.insert(q.clone(), None);
                }
                (COp::Delete(q), Outcome::Deleted) => {
                    hi.remove(q);
                }
                (COp::Append { q, pos, payloads }, Outcome::Appended(Some(last))) => {
                    let n = payloads.len() as u64;
                    let first = last + 1 - n;
                    let h = hi.get(q).copied().flatten();
                    let want_auto = h.map(|h| h + 1).unwrap_or(0);
                    if let Some(h) = h {
                        if first <= h {
                            return fail(
                                "position-reused",
                                format!("step {} {}: assigned position {} although {} was already appended or truncated-to", i, op.short(), first, h),
                            );
                        }
                    }
                    if pos.is_none() && first != want_auto {
                        return fail(
                            "auto-position",
                            format!("step {} {}: automatic position {} but the last position appended or truncated-to is {:?}", i, op.short(), first, h),
                        );
                    }
                    hi.insert(q.clone(), Some(*last));
                }
                (COp::Trunc { q, pos }, Outcome::Truncated(_)) => {
                    let h = hi.get(q).copied().flatten();
                    let new = Some(h.map(|h| h.max(*pos)).unwrap_or(*pos));
                    hi.insert(q.clone(), new);
                }
                _ => {}
            }
            if matches!(rec.got, Outcome::Reopened) || heavy || c04_diverged {
                for (q, h) in &hi {
                    let lp = run
                        .subject
                        .log()
                        .last_position(q)
                        .map_err(|e| ("queue-lost".to_string(), format!("step {}: {}", i, e)))?;
                    stats.nontrivial(&(q, h, leaf.seed_idx, rec.got.label()));
                    if lp != *h {
                        return fail(
                            "last-position",
                            format!("step {} {}: last_position({}) = {:?}, but the last position appended or truncated-to is {:?}", i, op.short(), q, lp, h),
                        );
                    }
                }
            }
        }
        if c04_diverged {
            return fail("diverged", format!("(seq.rs:{})", line!()));
        }
        // ---- file attribution from frame events (C06) and byte accounting (C15)
        if trace {
            let mut first_bw: Option<(u64, usize, usize)> = None;
            let mut sum_bw: u64 = 0;
            let mut sum_write: u64 = 0;
            if matches!(rec.cop, COp::Reopen) {
                // the writer's resume point is not observable until its next write (a tail of
                // fewer than 7 bytes in a block is skipped, not padded, by a restart), and the
                // recovery's own GC entries are the first frames after it
                fa.last_end_abs = None;
            }
            for e in &rec.events {
                match e {
                    Event::BlockWrite {
                        file_number,
                        offset,
                        len,
                        ..
                    } => {
                        if first_bw.is_none() {
                            first_bw = Some((*file_number, *offset, *len));
                        }
                        let start_abs = *file_number * FILE as u64 + *offset as u64;
                        if mon.c15 {
                            if let Some(prev) = fa.last_end_abs {
                                if prev != start_abs {
                                    return fail(
                                        "cursor-discontinuity",
                                        format!("step {} {}: a frame was written at absolute WAL offset {} but the previous one ended at {}", i, op.short(), start_abs, prev),
                                    );
                                }
                            }
                        }
                        fa.last_end_abs = Some(start_abs + *len as u64);
                        fa.cur_file = *file_number;
                        sum_bw += *len as u64;
                    }
                    Event::Write { data, .. } => sum_write += data.len() as u64,
                    _ => {}
                }
            }
            if mon.c15 && !matches!(rec.got, Outcome::Reopened | Outcome::Persisted) {
                if let Some(b) = rec.bytes {
                    if b != sum_bw {
                        return fail(
                            "bytes-vs-frames",
                            format!("step {} {}: wal_bytes_written = {} but the call handed {} bytes (frames + padding) to the WAL writer", i, op.short(), b, sum_bw),
                        );
                    }
                    if policy.per_op_persist().is_some() && b != sum_write {
                        return fail(
                            "bytes-vs-file-writes",
                            format!("step {} {}: wal_bytes_written = {} but {} bytes reached the WAL files during the call (flush-per-operation policy)", i, op.short(), b, sum_write),
                        );
                    }
                    stats.count(if b == 0 { "calls_0_bytes" } else { "calls_with_bytes" }, 1);
                    stats.nontrivial(&(first_bw.map(|f| (f.1 % BLOCK, f.1 / BLOCK)), b, rec.got.label()));
                    if rec.events.iter().any(|e| matches!(e, Event::BlockWrite { len, .. } if *len < 7)) {
                        stats.count("calls_with_padding", 1);
                    }
                    if matches!(rec.got, Outcome::Truncated(_) | Outcome::Deleted) && rec.events.iter().any(|e| matches!(e, Event::Unlink { .. })) {
                        stats.count("calls_with_gc", 1);
                        let nbw = rec.events.iter().filter(|e| matches!(e, Event::BlockWrite { len, .. } if *len >= 7)).count();
                        if nbw >= 2 {
                            stats.count("calls_with_gc_position_entries", 1);
                        }
                    }
                } else if sum_bw != 0 && !matches!(rec.got, Outcome::Err(_)) {
                    return fail("bytes-vs-frames", format!("step {} {}: no byte count reported but {} bytes written", i, op.short(), sum_bw));
                }
            }
            if let (COp::Append { q, pos: _, payloads }, Outcome::Appended(Some(last))) =
                (&rec.cop, &rec.got)
            {
                if let Some((file, offset, len)) = first_bw {
                    let n = payloads.len() as u64;
                    for p in (last + 1 - n)..=*last {
                        fa.attr.insert((q.clone(), p), file);
                        fa.at_file_start
                            .insert((q.clone(), p), offset == 0 && len >= 7);
                    }
                }
            }
        }
        // ---- C13: rejected and no-op calls leave no trace
        if mon.c13 && rec.expected.is_rejected_or_noop() {
            stats.count("rejected_or_noop_calls_checked", 1);
            stats.nontrivial(&(rec.got.label(), leaf.seed_idx, hash_of(&crate::exec::model_obs(&run.model)), cum_bytes));
            // (The statement says the WAL file contents are untouched: a rejected call that flushes
            // bytes buffered by earlier calls is therefore reported too.)
            let muts = mutation_events(&rec.events);
            if !muts.is_empty() {
                return fail(
                    "rejected-call-wrote",
                    format!("step {} {} ({}): file-system / WAL-writer effects {:?}", i, op.short(), rec.got.label(), muts),
                );
            }
            if let Some(b) = rec.bytes {
                if b != 0 {
                    return fail("noop-bytes", format!("step {} {}: no-op reported wal_bytes_written = {}", i, op.short(), b));
                }
            }
            let obs_after = run.subject.observe();
            if Some(&obs_after) != obs_before.as_ref() {
                return fail(
                    "rejected-call-changed-state",
                    format!("step {} {} ({}): observable state changed", i, op.short(), rec.got.label()),
                );
            }
            if let Some(before) = &files_before {
                let _ = run.subject.log.as_mut().unwrap().persist(mrecordlog::PersistAction::Flush);
                if trace {
                    let _ = vh::trace_take();
                }
                let after = read_wal_files(dir);
                if &after != before {
                    return fail(
                        "rejected-call-changed-files",
                        format!("step {} {} ({}): WAL file contents changed", i, op.short(), rec.got.label()),
                    );
                }
            }
        }
        // A truncation that was accepted but evicted fewer records than it covers: the mismatch is
        // C05's question, but C16 still asks whether the memory of what the truncation covers was
        // released (the state before the call conformed, so the model says what that is).
        let under_evicted = matches!((&rec.got, &rec.expected), (Outcome::Truncated(g), Outcome::Truncated(e)) if g < e);
        if rec.got != rec.expected && !(mon.c16 && under_evicted) && !oversize_created {
            // (C13 run: the spec'd no-op was checked for traces above; the mismatch itself is
            // C05's question)
            return fail("diverged", format!("(seq.rs:{})", line!()));
        }
        // ---- C16: memory accounting
        if mon.c16 && under_evicted {
            let ru = run.subject.log().resource_usage();
            if let (Outcome::Truncated(k), Some(mb), Some(ub)) = (&rec.expected, &model_before, used_before) {
                let evicted = mb.retained_payload_bytes() - run.model.retained_payload_bytes();
                stats.count("truncations_evicting", 1);
                if ub < ru.memory_used_bytes || ub - ru.memory_used_bytes < evicted {
                    return fail("mem-not-released", format!("step {} {}: the truncation covers {} records ({} payload bytes; the call reported {:?}) but memory_used_bytes went {} -> {}", i, op.short(), k, evicted, rec.got, ub, ru.memory_used_bytes));
                }
            }
            return fail("diverged", format!("(seq.rs:{})", line!()));
        }
        if mon.c16 {
            let ru = run.subject.log().resource_usage();
            let p = run.model.retained_payload_bytes();
            let n = run.model.name_bytes();
            let r = run.model.retained_records();
            if ru.memory_used_bytes < p + n {
                return fail("mem-used-too-small", format!("step {} {}: memory_used_bytes {} < retained payload {} + names {}", i, op.short(), ru.memory_used_bytes, p, n));
            }
            if ru.memory_used_bytes > p + n + 64 * r {
                return fail("mem-used-too-large", format!("step {} {}: memory_used_bytes {} > retained payload {} + names {} + 64 x {} records", i, op.short(), ru.memory_used_bytes, p, n, r));
            }
            if ru.memory_used_bytes > ru.memory_allocated_bytes {
                return fail("mem-used-gt-allocated", format!("step {} {}: memory_used_bytes {} > memory_allocated_bytes {}", i, op.short(), ru.memory_used_bytes, ru.memory_allocated_bytes));
            }
            if r == 0 && ru.memory_used_bytes != n {
                return fail("mem-baseline", format!("step {} {}: every queue is empty but memory_used_bytes {} != names {}", i, op.short(), ru.memory_used_bytes, n));
            }
            if let (Outcome::Truncated(k), Some(mb), Some(ub)) = (&rec.got, &model_before, used_before) {
                if *k > 0 {
                    let evicted = mb.retained_payload_bytes() - p;
                    stats.count("truncations_evicting", 1);
                    if ub < ru.memory_used_bytes || ub - ru.memory_used_bytes < evicted {
                        return fail("mem-not-released", format!("step {} {}: truncation evicted {} payload bytes but memory_used_bytes went {} -> {}", i, op.short(), evicted, ub, ru.memory_used_bytes));
                    }
                }
            }
            stats.max("max_memory_used_bytes", ru.memory_used_bytes as u64);
            stats.nontrivial(&(p, n, r, ru.memory_used_bytes));
        }
        // ---- C06: files reclaimed as soon as nothing retained lives in them
        if mon.c06 && matches!(rec.got, Outcome::Truncated(_) | Outcome::Deleted | Outcome::Reopened) {
            // drop attributions of records that are gone
            let model = &run.model;
            fa.attr.retain(|(q, p), _| {
                model
                    .queues
                    .get(q)
                    .map(|mq| mq.recs.iter().any(|r| r.0 == *p))
                    .unwrap_or(false)
            });
            // a deleted and re-created queue starts a new incarnation: positions may repeat, and
            // retain() above keeps only those present now, which were re-inserted by the append.
            let listing = list_dir(dir);
            let mut files: Vec<(u64, u64)> = listing
                .iter()
                .filter_map(|(n, l)| wal_number(n).map(|k| (k, *l)))
                .collect();
            files.sort();
            stats.count("c06_checks", 1);
            if files.is_empty() {
                return fail("no-wal-file", format!("step {} {}: no WAL file in the directory", i, op.short()));
            }
            for w in files.windows(2) {
                if w[1].0 != w[0].0 + 1 {
                    return fail("not-contiguous", format!("step {} {}: WAL files {:?} are not a contiguous run", i, op.short(), files.iter().map(|f| f.0).collect::<Vec<_>>()));
                }
            }
            let last = files.last().unwrap().0;
            // An implementation may create the next file as soon as the current one is full: when
            // the cursor sits exactly at the end of a file, "the file being written" is either.
            let at_file_end = fa.last_end_abs.map(|a| a > 0 && a % FILE as u64 == 0).unwrap_or(true);
            if last != fa.cur_file && !(at_file_end && last == fa.cur_file + 1) {
                return fail("run-does-not-end-at-current", format!("step {} {}: WAL files {:?} but the file being written is {}", i, op.short(), files.iter().map(|f| f.0).collect::<Vec<_>>(), fa.cur_file));
            }
            let oldest_attr = fa.attr.values().min().copied().unwrap_or(u64::MAX);
            let bound = oldest_attr.min(begin_file);
            let excess: Vec<u64> = files.iter().map(|f| f.0).filter(|f| *f < bound).collect();
            stats.max("max_files_in_directory", files.len() as u64);
            if rec.events.iter().any(|e| matches!(e, Event::Unlink { .. })) {
                stats.count("c06_calls_deleting_files", 1);
            }
            stats.nontrivial(&(files.iter().map(|f| f.0).collect::<Vec<_>>(), oldest_attr, begin_file, rec.got.label()));
            if !excess.is_empty() {
                // D4: the only retained evidence for keeping F is a record whose appending call
                // wrote its first byte at offset 0 of F+1 (cursor was exactly at the end of F).
                let d4 = excess.len() == 1
                    && fa.attr.iter().any(|(k, f)| *f == excess[0] + 1 && fa.at_file_start.get(k).copied().unwrap_or(false))
                    && fa.attr.values().all(|f| *f > excess[0]);
                let sig = if d4 { "D4-cursor-at-file-end" } else { "excess-file" };
                let res: Result<(), Fail> = fail(sig, format!("step {} {}: WAL files {:?} kept, but the oldest retained record was written into file {} and the call began in file {}: file(s) {:?} should have been reclaimed", i, op.short(), files.iter().map(|f| f.0).collect::<Vec<_>>(), if oldest_attr == u64::MAX { "none".to_string() } else { oldest_attr.to_string() }, begin_file, excess));
                if d4 {
                    // known finding: record it and keep checking the rest of this history
                    let (sig, what) = res.unwrap_err();
                    stats.violation(Violation {
                        property: mon.property.to_string(),
                        signature: sig,
                        what,
                        case: leaf_case(leaf, mon),
                    });
                } else {
                    return res;
                }
            }
            let disk = run.subject.log().resource_usage().disk_used_bytes as u64;
            let total_len: u64 = files.iter().map(|f| f.1).sum();
            if disk != total_len {
                return fail("disk-used-bytes", format!("step {} {}: disk_used_bytes {} but the WAL files total {} bytes", i, op.short(), disk, total_len));
            }
            let _ = model_before;
        }
        // ---- state comparisons
        let is_reopen = matches!(rec.got, Outcome::Reopened);
        if (mon.reopen_state && is_reopen) || (mon.conformance && heavy && !mon.accessors) {
            let obs = run.subject.observe();
            let want = model_obs(&run.model);
            if obs != want {
                let sig = if is_reopen { "state-after-restart" } else { "state-mismatch" };
                return fail(sig, format!("step {} {}: observable state {} differs from the model {}", i, op.short(), obs_summary(&obs), obs_summary(&want)));
            }
            if is_reopen {
                stats.count("restarts_checked", 1);
                stats.nontrivial(&(hash_of(&want), list_dir(dir).len(), leaf.seed_idx));
            }
        }
        if mon.accessors && heavy {
            let missing: Vec<&str> = names.iter().map(|n| n.as_str()).collect();
            match check_accessors(run.subject.log(), &run.model, &missing) {
                Ok(owned) => stats.count("ring_wrapped_reads", owned),
                Err(e) => return fail("accessor-mismatch", format!("step {} {}: {}", i, op.short(), e)),
            }
            stats.nontrivial(&(hash_of(&model_obs(&run.model)), rec.got.label()));
        }
        if heavy {
            let files: Vec<String> = list_dir(dir).into_iter().map(|f| f.0).collect();
            stats.state(&(hash_of(&model_obs(&run.model)), files, cum_bytes % FILE as u64));
        }
    }
    // ---- C16, at the very end: truncate every queue at the largest position there is; the
    // accounting must be back at the names-only baseline
    if mon.c16 {
        let queues: Vec<String> = run.model.queues.keys().cloned().collect();
        let names_len: usize = queues.iter().map(|q| q.len()).sum();
        for q in &queues {
            if run.subject.log.as_mut().unwrap().truncate(q, ..=u64::MAX).is_err() {
                return fail("diverged", format!("(seq.rs:{})", line!()));
            }
        }
        let ru = run.subject.log().resource_usage();
        stats.count("final_truncations_at_u64_max", 1);
        if ru.memory_used_bytes != names_len {
            return fail("mem-baseline", format!("after truncating every queue at u64::MAX (end of the history): memory_used_bytes {} != names {}", ru.memory_used_bytes, names_len));
        }
    }
    Ok(())
}

// ---------------------------------------------------------------------------------------------
// C14: lock-step over policy configurations (differential, no model verdict)

pub const C14_CONFIGS: [PolicyCfg; 11] = [
    PolicyCfg::Default,
    PolicyCfg::AlwaysFsync,
    PolicyCfg::DoNothing,
    PolicyCfg::DelayNeverFlush,
    PolicyCfg::DelayExpiredFlush,
    PolicyCfg::DelayExpiredFsync,
    PolicyCfg::DelayAltFlush,
    PolicyCfg::DelayAltFlush1,
    PolicyCfg::DelayMod3Flush0,
    PolicyCfg::DelayMod3Flush1,
    PolicyCfg::DelayMod3Flush2,
];

struct PolicyRun {
    outcomes: Vec<Outcome>,
    obs: Vec<Obs>,
    after_restart: Obs,
}

fn run_under_policy(dir: &std::path::Path, policy: PolicyCfg, cops: &[COp]) -> Result<PolicyRun, String> {
    reset_hooks(0, false);
    let mut subject = Subject::open(dir, policy).map_err(|e| format!("open failed: {e}"))?;
    let mut outcomes = vec![];
    let mut obs = vec![];
    for cop in cops {
        let (got, _) = subject.apply(cop);
        outcomes.push(got);
        obs.push(subject.observe());
    }
    drop(subject);
    let log = open_log(dir, policy).map_err(|e| format!("reopen failed: {e}"))?;
    let after_restart = observe(&log);
    Ok(PolicyRun { outcomes, obs, after_restart })
}

pub fn c14_leaf(env: &mut Env, leaf: &Leaf) {
    env.stats.evaluations += 1;
    // resolve the state-relative ops once, against the model
    let mut model = Model::default();
    let mut resolver = Resolver::new(default_names());
    let mut cops = vec![];
    for op in leaf.seed.ops.iter().chain(leaf.ops.iter().copied()) {
        let cop = resolver.resolve(op, &model);
        model.apply(&cop);
        cops.push(cop);
    }
    let dir = env.scratch.path.clone();
    let mut base: Option<PolicyRun> = None;
    for policy in C14_CONFIGS {
        env.scratch.reset();
        env.stats.traces += 1;
        env.stats.transitions += cops.len() as u64 + 1;
        let res = guarded(|| run_under_policy(&dir, policy, &cops));
        let run = match res {
            Ok(Ok(r)) => r,
            Ok(Err(e)) | Err(e) => {
                env.stats.violation(Violation {
                    property: "C14".into(),
                    signature: "failure-under-policy".into(),
                    what: format!("policy {}: {}", policy.name(), e),
                    case: json!({"engine":"c14","seed_name":leaf.seed.name,"seed_ops":leaf.seed.ops,"ops":leaf.ops}),
                });
                return;
            }
        };
        for o in &run.outcomes {
            env.stats.outcome(o.label());
        }
        match &base {
            None => {
                env.stats.state(&(hash_of(&run.after_restart), cops.len()));
                env.stats.nontrivial(&hash_of(&run.obs));
                base = Some(run);
            }
            Some(b) => {
                let mut diff: Option<String> = None;
                for i in 0..cops.len() {
                    if b.outcomes[i] != run.outcomes[i] {
                        diff = Some(format!("op {} {:?}: {} returned {:?}, {} returned {:?}", i, cops[i].to_json().to_string(), C14_CONFIGS[0].name(), b.outcomes[i], policy.name(), run.outcomes[i]));
                        break;
                    }
                    if b.obs[i] != run.obs[i] {
                        diff = Some(format!("after op {} {}: observable state under {} is {} but under {} it is {}", i, cops[i].to_json(), C14_CONFIGS[0].name(), obs_summary(&b.obs[i]), policy.name(), obs_summary(&run.obs[i])));
                        break;
                    }
                }
                if diff.is_none() && b.after_restart != run.after_restart {
                    diff = Some(format!("after drop + open: state under {} is {} but under {} it is {}", C14_CONFIGS[0].name(), obs_summary(&b.after_restart), policy.name(), obs_summary(&run.after_restart)));
                }
                if let Some(d) = diff {
                    env.stats.violation(Violation {
                        property: "C14".into(),
                        signature: "policy-changes-behaviour".into(),
                        what: d,
                        case: json!({"engine":"c14","seed_name":leaf.seed.name,"seed_ops":leaf.seed.ops,"ops":leaf.ops,"policy":policy}),
                    });
                    return;
                }
            }
        }
    }
}

// ---------------------------------------------------------------------------------------------
// C18: a history vs. its projection on one queue (metamorphic, no model verdict)

fn q_obs(obs: &Obs, q: &str) -> Option<QObs> {
    obs.get(q).cloned()
}

pub fn c18_leaf(env: &mut Env, leaf: &Leaf) {
    env.stats.evaluations += 1;
    let mut model = Model::default();
    let mut resolver = Resolver::new(default_names());
    let mut cops = vec![];
    for op in leaf.seed.ops.iter().chain(leaf.ops.iter().copied()) {
        let cop = resolver.resolve(op, &model);
        model.apply(&cop);
        cops.push(cop);
    }
    let dir = env.scratch.path.clone();
    let dir2 = env.scratch2.path.clone();
    let case = |q: &str| json!({"engine":"c18","seed_name":leaf.seed.name,"seed_ops":leaf.seed.ops,"ops":leaf.ops,"projected_on":q});
    // full run
    env.scratch.reset();
    env.stats.traces += 1;
    let full = guarded(|| -> Result<(Vec<Outcome>, Vec<Obs>, Option<Obs>), String> {
        reset_hooks(0, false);
        let mut subject = Subject::open(&dir, PolicyCfg::Default).map_err(|e| format!("open failed: {e}"))?;
        let mut outs = vec![];
        let mut obs = vec![];
        for cop in &cops {
            let (got, _) = subject.apply(cop);
            outs.push(got);
            obs.push(subject.observe());
        }
        // op-boundary crash: recover from a copy of the live directory
        let image = read_image(&dir);
        drop(subject);
        set_image(&dir, &image);
        // (a recovery that fails altogether is compared too: None)
        let crash = open_log(&dir, PolicyCfg::Default).ok().map(|log| observe(&log));
        Ok((outs, obs, crash))
    });
    let (f_outs, f_obs, f_crash) = match full {
        Ok(Ok(x)) => x,
        _ => {
            env.stats.diverged += 1;
            return;
        }
    };
    env.stats.transitions += cops.len() as u64 + 1;
    let names = default_names();
    for q in [&names[QA as usize], &names[QB as usize]] {
        let idxs: Vec<usize> = (0..cops.len())
            .filter(|i| match cops[*i].queue() {
                Some(name) => name == q,
                None => true,
            })
            .collect();
        if idxs.len() == cops.len() || !idxs.iter().any(|i| cops[*i].queue().is_some()) {
            continue; // nothing removed, or nothing addressed to q
        }
        env.scratch2.reset();
        env.stats.traces += 1;
        let proj = guarded(|| -> Result<Option<String>, String> {
            reset_hooks(0, false);
            let mut subject = Subject::open(&dir2, PolicyCfg::Default).map_err(|e| format!("open failed: {e}"))?;
            for i in &idxs {
                let (got, _) = subject.apply(&cops[*i]);
                if got != f_outs[*i] {
                    return Ok(Some(format!("op {} {} returned {:?} in the full history but {:?} when the calls addressed to other queues are removed", i, cops[*i].to_json(), f_outs[*i], got)));
                }
                let obs = subject.observe();
                if q_obs(&obs, q) != q_obs(&f_obs[*i], q) {
                    return Ok(Some(format!("after op {} {}: queue {} is {:?} in the full history but {:?} when the calls addressed to other queues are removed", i, cops[*i].to_json(), q, q_obs(&f_obs[*i], q).map(|o| (o.recs.iter().map(|r| r.0).collect::<Vec<_>>(), o.last_pos)), q_obs(&obs, q).map(|o| (o.recs.iter().map(|r| r.0).collect::<Vec<_>>(), o.last_pos)))));
                }
            }
            let image = read_image(&dir2);
            drop(subject);
            set_image(&dir2, &image);
            let log = open_log(&dir2, PolicyCfg::Default).map_err(|e| format!("recovery failed: {e}"))?;
            let crash = observe(&log);
            let Some(f_crash) = &f_crash else {
                return Ok(Some(format!("after the full history the directory cannot be opened any more (queue {} is unavailable), while after the history without the calls addressed to other queues it opens and returns {:?}", q, q_obs(&crash, q).map(|o| (o.recs.iter().map(|r| r.0).collect::<Vec<_>>(), o.last_pos)))));
            };
            if q_obs(&crash, q) != q_obs(f_crash, q) {
                return Ok(Some(format!("after recovering a copy of the live directory: queue {} is {:?} in the full history but {:?} in the projected one", q, q_obs(f_crash, q).map(|o| (o.recs.iter().map(|r| r.0).collect::<Vec<_>>(), o.last_pos)), q_obs(&crash, q).map(|o| (o.recs.iter().map(|r| r.0).collect::<Vec<_>>(), o.last_pos)))));
            }
            Ok(None)
        });
        env.stats.transitions += idxs.len() as u64 + 1;
        env.stats.count("projections_compared", 1);
        env.stats.nontrivial(&(hash_of(&f_obs.last()), q.clone(), idxs.len()));
        match proj {
            Ok(Ok(None)) => {}
            Ok(Ok(Some(what))) => {
                env.stats.violation(Violation { property: "C18".into(), signature: "queue-affected-by-other-queue".into(), what, case: case(q) });
                return;
            }
            Ok(Err(e)) | Err(e) => {
                env.stats.violation(Violation { property: "C18".into(), signature: "failure-in-projected-run".into(), what: e, case: case(q) });
                return;
            }
        }
    }
    env.stats.state(&(hash_of(&f_obs.last()), list_dir(&dir).len()));
}

// ---------------------------------------------------------------------------------------------
// C17: foreign directory entries and numbering gaps (on the real file system)

fn evil_wal_bytes() -> Vec<u8> {
    // a valid WAL file content: create queue "evil" and append one record to it
    let mut file = vec![0u8; FILE];
    let mut e1 = vec![2u8];
    e1.extend_from_slice(&0u64.to_le_bytes());
    e1.extend_from_slice(&4u16.to_le_bytes());
    e1.extend_from_slice(b"evil");
    let f1 = crate::damage::crc_frame(1, &e1);
    let mut e2 = vec![4u8];
    e2.extend_from_slice(&0u64.to_le_bytes());
    e2.extend_from_slice(&4u16.to_le_bytes());
    e2.extend_from_slice(b"evil");
    e2.extend_from_slice(&0u64.to_le_bytes());
    e2.extend_from_slice(&3u32.to_le_bytes());
    e2.extend_from_slice(b"bad");
    let f2 = crate::damage::crc_frame(1, &e2);
    file[..f1.len()].copy_from_slice(&f1);
    file[f1.len()..f1.len() + f2.len()].copy_from_slice(&f2);
    file
}

#[derive(Clone, Debug, PartialEq, Eq)]
enum Foreign {
    File(Vec<u8>),
    Dir(Vec<(String, Vec<u8>)>),
    Symlink(std::path::PathBuf),
}

fn foreign_entries(outside: &std::path::Path) -> Vec<(String, Foreign)> {
    let evil = evil_wal_bytes();
    vec![
        ("wal-0000000000000000000".to_string(), Foreign::File(evil.clone())),
        ("wal-000000000000000000000".to_string(), Foreign::File(evil.clone())),
        ("wal-0000000000000000000x".to_string(), Foreign::File(evil.clone())),
        ("wal-000000000000000000\u{0663}".to_string(), Foreign::File(evil.clone())),
        ("WAL-00000000000000000000".to_string(), Foreign::File(evil.clone())),
        ("wal-00000000000000000900".to_string(), Foreign::Dir(vec![("wal-00000000000000000000".to_string(), evil.clone())])),
        ("wal-00000000000000000901".to_string(), Foreign::Symlink(outside.to_path_buf())),
        (".wal-00000000000000000000".to_string(), Foreign::File(evil.clone())),
        ("data.bin".to_string(), Foreign::File(vec![0x5a; 3 * FILE + 17])),
        ("wal-+0000000000000000001".to_string(), Foreign::File(evil.clone())),
        ("wal-00000000000000000000.tmp".to_string(), Foreign::File(evil.clone())),
        ("xwal-0000000000000000000".to_string(), Foreign::File(evil.clone())),
        ("wal-0000000000000000 001".to_string(), Foreign::File(evil.clone())),
        ("wal--0000000000000000001".to_string(), Foreign::File(evil.clone())),
        // 24 bytes of multi-byte UTF-8 with no char boundary at byte 4
        ("\u{65e5}\u{672c}\u{8a9e}\u{306e}\u{30d5}\u{30a1}\u{30a4}\u{30eb}".to_string(), Foreign::File(evil.clone())),
        ("wal\u{e9}0000000000000000001".to_string(), Foreign::File(evil)),
    ]
}

fn install_foreign(dir: &std::path::Path, entries: &[(String, Foreign)]) {
    for (name, f) in entries {
        let p = dir.join(name);
        match f {
            Foreign::File(bytes) => std::fs::write(&p, bytes).expect("write foreign file"),
            Foreign::Dir(children) => {
                std::fs::create_dir(&p).expect("create foreign dir");
                for (c, bytes) in children {
                    std::fs::write(p.join(c), bytes).expect("write foreign child");
                }
            }
            Foreign::Symlink(target) => std::os::unix::fs::symlink(target, &p).expect("symlink"),
        }
    }
}

fn check_foreign(dir: &std::path::Path, entries: &[(String, Foreign)]) -> Result<(), String> {
    for (name, f) in entries {
        let p = dir.join(name);
        let meta = std::fs::symlink_metadata(&p).map_err(|_| format!("foreign entry {:?} no longer exists", name))?;
        match f {
            Foreign::File(bytes) => {
                if !meta.is_file() {
                    return Err(format!("foreign file {:?} changed type", name));
                }
                let now = std::fs::read(&p).map_err(|e| e.to_string())?;
                if &now != bytes {
                    return Err(format!("foreign file {:?} was modified ({} -> {} bytes)", name, bytes.len(), now.len()));
                }
            }
            Foreign::Dir(children) => {
                if !meta.is_dir() {
                    return Err(format!("foreign sub-directory {:?} changed type", name));
                }
                for (c, bytes) in children {
                    let now = std::fs::read(p.join(c)).map_err(|_| format!("file {:?} inside foreign sub-directory {:?} is gone", c, name))?;
                    if &now != bytes {
                        return Err(format!("file {:?} inside foreign sub-directory {:?} was modified", c, name));
                    }
                }
                let n = std::fs::read_dir(&p).map(|r| r.count()).unwrap_or(0);
                if n != children.len() {
                    return Err(format!("foreign sub-directory {:?} now holds {} entries", name, n));
                }
            }
            Foreign::Symlink(target) => {
                if !meta.file_type().is_symlink() {
                    return Err(format!("foreign symlink {:?} changed type", name));
                }
                let now = std::fs::read_link(&p).map_err(|e| e.to_string())?;
                if &now != target {
                    return Err(format!("foreign symlink {:?} retargeted", name));
                }
                let tb = std::fs::read(target).map_err(|e| e.to_string())?;
                if tb != evil_wal_bytes() {
                    return Err(format!("the target of foreign symlink {:?} was modified", name));
                }
            }
        }
    }
    Ok(())
}

pub struct RealDirs {
    pub dir: Scratch,
    pub outside: Scratch,
}

thread_local! {
    static REAL_DIRS: std::cell::RefCell<Option<RealDirs>> = const { std::cell::RefCell::new(None) };
}

/// variant 0: directory pre-populated with foreign entries; variant 1: numbering gaps;
/// variant 2: after the seed, a symlink (to a file outside) is planted on the name of the NEXT WAL
/// file the library will want to create.
pub fn c17_leaf(env: &mut Env, leaf: &Leaf, variant: usize) {
    REAL_DIRS.with(|rd| {
        let mut rd = rd.borrow_mut();
        if rd.is_none() {
            *rd = Some(RealDirs { dir: Scratch::with_mode(false), outside: Scratch::with_mode(false) });
        }
        let rd = rd.as_ref().unwrap();
        rd.dir.reset();
        rd.outside.reset();
        let dir = rd.dir.path.clone();
        let target = rd.outside.path.join("symlink-target.bin");
        std::fs::write(&target, evil_wal_bytes()).expect("write symlink target");
        env.stats.evaluations += 1;
        env.stats.traces += 1;
        let stats = &mut env.stats;
        let res = guarded(|| c17_inner(stats, &dir, &target, leaf, variant));
        let fail = match res {
            Ok(Ok(())) => None,
            Ok(Err(f)) => Some(f),
            Err(p) => Some(("panic".to_string(), p)),
        };
        if let Some((sig, what)) = fail {
            if sig == "diverged" {
                env.stats.diverged += 1;
                return;
            }
            env.stats.violation(Violation {
                property: "C17".into(),
                signature: sig,
                what,
                case: json!({"engine":"c17","variant": match variant { 0 => "foreign-entries", 1 => "numbering-gaps", 2 => "symlink-on-next-wal-name", 4 => "symlink-on-wal-u64-max", _ => "non-regular-entries-on-collected-wal-names" },"seed_name":leaf.seed.name,"seed_ops":leaf.seed.ops,"ops":leaf.ops}),
            });
        }
    });
}

fn is_wal_name(name: &str) -> bool {
    wal_number(name).is_some()
}

fn c17_inner(stats: &mut Stats, dir: &std::path::Path, target: &std::path::Path, leaf: &Leaf, variant: usize) -> Result<(), Fail> {
    let mut foreign = if variant == 0 { foreign_entries(target) } else { vec![] };
    install_foreign(dir, &foreign);
    if variant == 2 && leaf.seed.ops.is_empty() {
        // first open of an empty directory: the name of the very first WAL file
        let planted = vec![(wal_name(0), Foreign::Symlink(target.to_path_buf()))];
        install_foreign(dir, &planted);
        foreign.extend(planted);
        reset_hooks(0, true);
        let res = open_log(dir, PolicyCfg::Default);
        let events = vh::trace_take();
        for e in &events {
            if let Event::Open { name, is_dir: false, .. } | Event::Read { name, .. } | Event::Write { name, .. } | Event::SetLen { name, .. } = e {
                if *name == wal_name(0) {
                    return fail("foreign-entry-touched", format!("first open: the symlink {:?} sitting on the name of the first WAL file was opened / read as log data / written / resized through ({:?})", name, e));
                }
            }
        }
        if let Ok(log) = &res {
            // whatever open decided, nothing of the foreign file's content may show up as log data
            let obs = observe(log);
            if !obs.is_empty() {
                return fail("foreign-entry-read-as-log", format!("first open with a symlink on the first WAL name returned a log with queues {}", obs_summary(&obs)));
            }
        }
        drop(res);
        check_foreign(dir, &foreign).map_err(|e| ("foreign-entry-changed".to_string(), format!("first open with a symlink on the first WAL name: {}", e)))?;
        stats.count("symlink_on_next_wal_name_cases", 1);
        return Ok(());
    }
    let mut planted_name: Option<String> = None;
    let mut collected_names: Vec<String> = vec![];
    let mut run = Run::start(dir, PolicyCfg::Default, 0, true, default_names()).map_err(|e| ("open-failed".to_string(), e))?;
    let mut all_events: Vec<Event> = std::mem::take(&mut run.open_events);
    let seed_len = leaf.seed.ops.len();
    let total = seed_len + leaf.ops.len();
    let foreign_names0: Vec<String> = foreign.iter().map(|f| f.0.clone()).collect();
    let check_events = |events: &[Event], i: usize, planted: &Option<String>| -> Result<(), Fail> {
        let mut foreign_names: Vec<&String> = foreign_names0.iter().collect();
        if let Some(p) = planted {
            foreign_names.push(p);
        }
        for e in events {
            let (name, what) = match e {
                Event::Open { name, create_new, is_dir, .. } => (name, if *is_dir { "" } else if *create_new { "created" } else { "opened" }),
                Event::Unlink { name } => (name, "removed"),
                Event::Read { name, .. } => (name, "read"),
                Event::Write { name, .. } => (name, "written"),
                Event::SetLen { name, .. } => (name, "resized"),
                _ => continue,
            };
            if what.is_empty() {
                continue;
            }
            if foreign_names.contains(&name) {
                return fail("foreign-entry-touched", format!("step {}: foreign entry {:?} was {}", i, name, what));
            }
            if !is_wal_name(name) {
                return fail("non-wal-name-touched", format!("step {}: a file named {:?} (not wal-<20 digits>) was {}", i, name, what));
            }
        }
        Ok(())
    };
    check_events(&all_events, 0, &planted_name)?;
    all_events.clear();
    for i in 0..=total {
        let is_final = i == total;
        if variant == 1 && i == seed_len {
            // renumber the WAL files with gaps (k -> 4k+2), with the log closed
            run.subject.log = None;
            let mut files: Vec<u64> = list_dir(dir).iter().filter_map(|f| wal_number(&f.0)).collect();
            files.sort();
            files.reverse();
            for (k, n) in files.iter().enumerate() {
                let rank = files.len() - 1 - k;
                let new = n + 3 * rank as u64 + 2;
                std::fs::rename(dir.join(wal_name(*n)), dir.join(wal_name(new))).expect("rename");
            }
            stats.count("gap_renumberings", 1);
            match open_log(dir, PolicyCfg::Default) {
                Ok(log) => run.subject.log = Some(log),
                Err(e) => return fail("open-failed-with-numbering-gaps", format!("open failed on a WAL whose files are numbered with gaps: {}", e)),
            }
            let _ = vh::trace_take();
            let obs = run.subject.observe();
            if obs != model_obs(&run.model) {
                return fail("state-lost-with-numbering-gaps", format!("after renumbering the WAL files with gaps the log yields {} instead of {}", obs_summary(&obs), obs_summary(&model_obs(&run.model))));
            }
        }
        if variant == 4 && i == seed_len {
            // the numbering has reached the top of the range: with the log closed, the newest WAL
            // file is renamed to wal-<u64::MAX - 1> (gaps are allowed), so that the next file the
            // library wants to create is wal-<u64::MAX> - on which the symlink is then planted
            run.subject.log = None;
            let max = list_dir(dir).iter().filter_map(|f| wal_number(&f.0)).max().unwrap_or(0);
            std::fs::rename(dir.join(wal_name(max)), dir.join(wal_name(u64::MAX - 1))).expect("rename");
            match open_log(dir, PolicyCfg::Default) {
                Ok(log) => run.subject.log = Some(log),
                Err(e) => return fail("open-failed-with-numbering-gaps", format!("open failed on a WAL whose newest file is numbered u64::MAX - 1: {}", e)),
            }
            let _ = vh::trace_take();
            let obs = run.subject.observe();
            if obs != model_obs(&run.model) {
                return fail("state-lost-with-numbering-gaps", format!("after renaming the newest WAL file to u64::MAX - 1 the log yields {} instead of {}", obs_summary(&obs), obs_summary(&model_obs(&run.model))));
            }
            stats.count("top_of_range_renumberings", 1);
        }
        if (variant == 2 || variant == 4) && i == seed_len {
            let next = list_dir(dir).iter().filter_map(|f| wal_number(&f.0)).max().unwrap_or(0) + 1;
            let planted = vec![(wal_name(next), Foreign::Symlink(target.to_path_buf()))];
            install_foreign(dir, &planted);
            planted_name = Some(wal_name(next));
            foreign.extend(planted);
            stats.count("symlink_on_next_wal_name_cases", 1);
        }
        if variant == 3 && i == seed_len {
            // the oldest files have already been collected: a symlink and a sub-directory on
            // collected numbers (valid WAL names below the first file in use)
            let min = list_dir(dir).iter().filter_map(|f| wal_number(&f.0)).min().unwrap_or(0);
            if min == 0 {
                return Ok(());
            }
            let mut old = vec![(wal_name(min - 1), Foreign::Symlink(target.to_path_buf()))];
            if min >= 2 {
                old.push((wal_name(min - 2), Foreign::Dir(vec![("inner".to_string(), vec![1, 2, 3])])));
            }
            install_foreign(dir, &old);
            for o in &old {
                collected_names.push(o.0.clone());
            }
            foreign.extend(old);
            stats.count("symlink_on_collected_wal_name_cases", 1);
        }
        let op_final = Op::Reopen;
        let op: &Op = if is_final { &op_final } else if i < seed_len { &leaf.seed.ops[i] } else { leaf.ops[i - seed_len] };
        let rec = run.step(op);
        stats.transitions += 1;
        if i >= seed_len {
            stats.outcome(rec.got.label());
        }
        if let Some(p) = &planted_name {
            // only creation / writing / resizing through the planted symlink counts as touching it
            for e in &rec.events {
                if let Event::Open { name, create_new: true, is_dir: false, .. } | Event::Write { name, .. } | Event::SetLen { name, .. } = e {
                    if name == p {
                        return fail("foreign-entry-touched", format!("step {} {}: the symlink {:?} planted on the next WAL file name was created/written/resized through", i, op.short(), name));
                    }
                }
            }
            if matches!(rec.got, Outcome::Err(ErrKind::Io(_))) {
                // refusing to continue is fine; what matters is that the foreign entry is intact -
                // also when the caller simply retries the call that failed
                check_foreign(dir, &foreign).map_err(|e| ("foreign-entry-changed".to_string(), format!("step {} {}: {}", i, op.short(), e)))?;
                stats.count("io_errors_caused_by_the_planted_symlink_(call_retried)", 1);
                let retry = run.step_concrete(rec.cop.clone());
                for e in &retry.events {
                    if let Event::Open { name, write: true, is_dir: false, .. } | Event::Write { name, .. } | Event::SetLen { name, .. } = e {
                        if name == p {
                            return fail("foreign-entry-touched-on-retry", format!("step {} {}: the call failed with an I/O error because a symlink sits on the next WAL file name; retrying it opened/wrote/resized {:?} through the symlink", i, op.short(), name));
                        }
                    }
                }
                check_foreign(dir, &foreign).map_err(|e| ("foreign-entry-changed".to_string(), format!("step {} {} (retried after the I/O error): {}", i, op.short(), e)))?;
                return Ok(());
            }
        } else {
            check_events(&rec.events, i, &planted_name)?;
            for e in &rec.events {
                if let Event::Unlink { name } | Event::Write { name, .. } | Event::SetLen { name, .. } | Event::Open { name, is_dir: false, .. } = e {
                    if collected_names.contains(name) {
                        return fail("foreign-entry-touched", format!("step {} {}: foreign entry {:?} (a non-regular entry on an already collected WAL number) was opened/written/resized/removed", i, op.short(), name));
                    }
                }
            }
        }
        if rec.events.iter().any(|e| matches!(e, Event::Unlink { .. })) {
            stats.count("calls_deleting_wal_files", 1);
        }
        if rec.events.iter().any(|e| matches!(e, Event::Open { create_new: true, is_dir: false, .. })) {
            stats.count("calls_creating_wal_files", 1);
        }
        if let (Outcome::Err(ErrKind::Io(e)), true) = (&rec.got, variant != 2 && variant != 4 && planted_name.is_none()) {
            // nothing in these directories stands in the way of the library's own files: an I/O
            // error can only come from treating a foreign entry as one of them (e.g. opening a
            // sub-directory or a dangling link as a WAL file)
            return fail("io-error-caused-by-foreign-entries", format!("step {} {}: {} (foreign entries present: {:?})", i, op.short(), e, foreign.iter().map(|f| f.0.as_str()).collect::<Vec<_>>()));
        }
        if matches!(rec.got, Outcome::Err(ErrKind::Io(_))) && run.subject.log.is_none() {
            // a restart that failed leaves no log to look at
            return fail("diverged", format!("(seq.rs:{})", line!()));
        }
        let heavy = is_final || (i >= seed_len && i - seed_len >= leaf.heavy_from) || matches!(rec.got, Outcome::Reopened);
        if heavy {
            check_foreign(dir, &foreign).map_err(|e| ("foreign-entry-changed".to_string(), format!("step {} {}: {}", i, op.short(), e)))?;
            let obs = run.subject.observe();
            if obs.contains_key("evil") {
                return fail("foreign-entry-read-as-log-data", format!("step {} {}: queue \"evil\", which only exists inside foreign directory entries, appeared in the log", i, op.short()));
            }
            stats.nontrivial(&(hash_of(&obs), list_dir(dir).len(), variant, rec.got.label()));
            stats.state(&(hash_of(&obs), list_dir(dir).iter().map(|f| f.0.clone()).collect::<Vec<_>>()));
            if matches!(rec.got, Outcome::Reopened) && obs != model_obs(&run.model) {
                if variant == 1 {
                    return fail("state-lost-with-numbering-gaps", format!("step {} {}: after restart the log yields {} instead of {}", i, op.short(), obs_summary(&obs), obs_summary(&model_obs(&run.model))));
                }
                return fail("diverged", format!("(seq.rs:{})", line!()));
            }
        }
        if rec.got != rec.expected {
            return fail("diverged", format!("(seq.rs:{})", line!()));
        }
    }
    Ok(())
}


// ---------------------------------------------------------------------------------------------
// machinery self-checks (never verdicts)

fn traced_run(dir: &std::path::Path, ops: &[&Op], hash_seed: u64) -> Option<(Vec<Vec<Event>>, Vec<Outcome>, BTreeMap<String, Vec<u8>>, Option<(u64, usize)>)> {
    guarded(|| {
        let mut run = Run::start(dir, PolicyCfg::Default, hash_seed, true, default_names()).ok()?;
        let mut evs = vec![std::mem::take(&mut run.open_events)];
        let mut outs = vec![];
        let mut cursor: Option<(u64, usize)> = Some((0, 0));
        for op in ops {
            let rec = run.step(op);
            for e in &rec.events {
                if let Event::BlockWrite { file_number, offset, len, .. } = e {
                    cursor = Some((*file_number, offset + len));
                }
            }
            evs.push(rec.events);
            outs.push(rec.got);
        }
        // the directory's own name differs between scratch directories
        for e in evs.iter_mut().flatten() {
            match e {
                Event::Open { name, is_dir: true, .. } | Event::SyncData { name, is_dir: true } => *name = ".".into(),
                _ => {}
            }
        }
        drop(run);
        Some((evs, outs, read_image(dir), cursor))
    })
    .ok()
    .flatten()
}

/// Runs the first leaves of each profile twice (same thread-local seeds) and requires identical
/// I/O traces, outcomes and final directory images; compares the seeds' predicted cursors with
/// the measured ones; runs the same leaves on the real file system and requires the same traces
/// and images as on the in-memory directory.
pub fn self_checks(profiles: &[Profile], part: &mut Part) {
    let mut env = Env::new();
    let real = Scratch::with_mode(false);
    let mut det_runs = 0u64;
    let mut vfs_runs = 0u64;
    let mut cursor_ok = 0u64;
    let mut cursor_total = 0u64;
    for p in profiles {
        for seed in &p.seeds {
            // the seed alone: cursor prediction
            env.scratch.reset();
            let ops: Vec<&Op> = seed.ops.iter().collect();
            if let Some((_, _, _, cur)) = traced_run(&env.scratch.path, &ops, 0) {
                if let (Some(pred), Some((f, o))) = (seed.predicted_cursor, cur) {
                    cursor_total += 1;
                    if pred as u64 == f * FILE as u64 + o as u64 {
                        cursor_ok += 1;
                    }
                }
            }
            for (k, first) in p.alphabet.iter().enumerate().take(12) {
                let second = &p.alphabet[(k * 7 + 3) % p.alphabet.len()];
                let mut ops: Vec<&Op> = seed.ops.iter().collect();
                ops.push(first);
                ops.push(second);
                env.scratch.reset();
                let a = traced_run(&env.scratch.path, &ops, 0);
                env.scratch.reset();
                let b = traced_run(&env.scratch.path, &ops, 0);
                det_runs += 1;
                if a != b {
                    part.machinery_errors.push(format!("determinism self-check failed: seed {} + {} + {} gave different traces on re-execution", seed.name, first.short(), second.short()));
                    return;
                }
                if k < 4 && env.scratch.vfs {
                    real.reset();
                    let c = traced_run(&real.path, &ops, 0);
                    vfs_runs += 1;
                    if a != c {
                        part.machinery_errors.push(format!("in-memory directory does not behave like the real file system: seed {} + {} + {}", seed.name, first.short(), second.short()));
                        return;
                    }
                }
            }
        }
    }
    let prev = part.extra.get("self_checks").cloned().unwrap_or(json!({}));
    let g = |k: &str| prev.get(k).and_then(|v| v.as_u64()).unwrap_or(0);
    part.extra.insert(
        "self_checks".into(),
        json!({"histories_re_executed_with_identical_io_traces_outcomes_and_images": det_runs + g("histories_re_executed_with_identical_io_traces_outcomes_and_images"),
               "histories_with_identical_traces_on_in_memory_and_real_fs": vfs_runs + g("histories_with_identical_traces_on_in_memory_and_real_fs"),
               "seed_cursor_predictions_ok": cursor_ok + g("seed_cursor_predictions_ok"),
               "seed_cursor_predictions_total": cursor_total + g("seed_cursor_predictions_total")}),
    );
}

//! FRAME engine (C07): the real RecordWriter / RecordReader over harness-owned in-memory
//! blocks, on the whole (start offset) x (entry length) x (followers) grid.
use std::io;
use std::sync::atomic::{AtomicUsize, Ordering};
use std::sync::Mutex;

use mrecordlog::verif_hooks::{FrameWriter, RecordReader, RecordWriter};
use mrecordlog::{BlockRead, BlockWrite, PersistAction, Serializable};
use serde_json::json;

use crate::ops::*;
use crate::report::*;
use crate::seq::{guarded, num_threads};

pub struct MemWriter {
    pub buf: Vec<u8>,
    pub cursor: usize,
}

impl BlockWrite for MemWriter {
    fn write(&mut self, data: &[u8]) -> io::Result<()> {
        assert!(data.len() <= self.num_bytes_remaining_in_block());
        let end = self.cursor + data.len();
        if self.buf.len() < end {
            let new_len = (end + BLOCK - 1) / BLOCK * BLOCK;
            self.buf.resize(new_len, 0);
        }
        self.buf[self.cursor..end].copy_from_slice(data);
        self.cursor = end;
        Ok(())
    }
    fn persist(&mut self, _: PersistAction) -> io::Result<()> {
        Ok(())
    }
    fn num_bytes_remaining_in_block(&self) -> usize {
        BLOCK - self.cursor % BLOCK
    }
}

pub struct MemReader {
    data: Vec<u8>,
    block: Box<[u8; BLOCK]>,
    next: usize,
}

impl MemReader {
    pub fn new(mut data: Vec<u8>) -> MemReader {
        // the log lives in zero-prefilled space: one more zero block after the data
        let len = ((data.len() + BLOCK - 1) / BLOCK + 1) * BLOCK;
        data.resize(len, 0);
        let mut block = Box::new([0u8; BLOCK]);
        block.copy_from_slice(&data[..BLOCK]);
        MemReader { data, block, next: 1 }
    }
}

impl BlockRead for MemReader {
    fn next_block(&mut self) -> io::Result<bool> {
        let start = self.next * BLOCK;
        if start + BLOCK > self.data.len() {
            return Ok(false);
        }
        self.block.copy_from_slice(&self.data[start..start + BLOCK]);
        self.next += 1;
        Ok(true)
    }
    fn block(&self) -> &[u8; BLOCK] {
        &self.block
    }
}

pub struct Raw<'a>(pub &'a [u8]);

impl<'a> Serializable<'a> for Raw<'a> {
    fn serialize(&self, buffer: &mut Vec<u8>) {
        buffer.clear();
        buffer.extend_from_slice(self.0);
    }
    fn deserialize(buffer: &'a [u8]) -> Option<Self> {
        Some(Raw(buffer))
    }
}

pub fn entry_bytes(tag: usize, len: usize) -> Vec<u8> {
    (0..len).map(|i| ((tag * 53 + i * 7) % 251 + 1) as u8).collect()
}

/// Writes the entries with the real writer, reads them back with the real reader.
/// Returns Err(description) if what is read differs from what was written.
pub fn round_trip(entries: &[Vec<u8>]) -> Result<(usize, u64), String> {
    let mut writer: RecordWriter<MemWriter> = RecordWriter::from(FrameWriter::create(MemWriter { buf: vec![], cursor: 0 }));
    let mut reported: u64 = 0;
    let mut cursors = vec![];
    for e in entries {
        reported += writer.write_record(Raw(e)).map_err(|e| format!("write error {e}"))?;
        cursors.push(writer.get_underlying_wrt().cursor);
    }
    let mem = writer.get_underlying_wrt();
    let cursor = mem.cursor;
    let data = mem.buf.clone();
    let mut reader = RecordReader::open(MemReader::new(data));
    for (i, e) in entries.iter().enumerate() {
        match reader.read_record::<Raw>() {
            Ok(Some(Raw(got))) => {
                if got != &e[..] {
                    let first_diff = got.iter().zip(e.iter()).position(|(a, b)| a != b);
                    return Err(format!("entry {} (len {}) read back with len {} (first differing byte: {:?}); cursors after each entry: {:?}", i, e.len(), got.len(), first_diff, cursors));
                }
            }
            Ok(None) => return Err(format!("entry {} (len {}) not read back: end of log reported; cursors after each entry: {:?}", i, e.len(), cursors)),
            Err(err) => return Err(format!("entry {} (len {}) not read back: {:?}; cursors after each entry: {:?}", i, e.len(), err, cursors)),
        }
    }
    match reader.read_record::<Raw>() {
        Ok(None) => {}
        Ok(Some(Raw(got))) => return Err(format!("an extra entry of len {} is read after the {} written ones", got.len(), entries.len())),
        Err(err) => return Err(format!("reading past the last entry gives {:?} instead of end of log", err)),
    }
    Ok((cursor, reported))
}

fn prefix_for(start: usize) -> Option<Vec<Vec<u8>>> {
    // entries that bring the cursor to `start` (offset in block 0): one entry of start-7 bytes
    if start == 0 {
        Some(vec![])
    } else if start >= 7 && start <= BLOCK {
        Some(vec![entry_bytes(9, start - 7)])
    } else {
        None
    }
}

pub fn run_frame(part: &mut Part) {
    let quick = part.tier != "thorough";
    // the grid
    let starts: Vec<usize> = if TINY {
        (0..=BLOCK).collect()
    } else {
        let mut v: Vec<usize> = (0..=24).collect();
        v.extend(BLOCK - 24..=BLOCK);
        let mut s = 1021;
        while s < BLOCK {
            v.push(s);
            s += if quick { 4084 } else { 1021 };
        }
        v
    };
    let lens: Vec<usize> = if TINY {
        (0..=(if quick { 3 } else { 5 }) * BLOCK + 9).collect()
    } else {
        let mut v = vec![];
        let kmax = if quick { 4 } else { 10 };
        for k in 0..=kmax {
            let c = k * (BLOCK - 7);
            for d in 0..=32usize {
                if c + d >= 16 {
                    v.push(c + d - 16);
                }
            }
        }
        for d in 0..=32usize {
            v.push(300 * 1024 + d - 16);
        }
        v.sort();
        v.dedup();
        v
    };
    let followers: Vec<Option<usize>> = if TINY {
        let mut v = vec![None];
        v.extend((0..=(if quick { 1 } else { 2 }) * BLOCK + 1).map(Some));
        v
    } else {
        vec![None, Some(0), Some(1), Some(BLOCK - 7 - 1), Some(BLOCK - 7), Some(BLOCK - 7 + 1)]
    };
    let seconds: Vec<Option<usize>> = vec![None, Some(0), Some(1), Some(BLOCK - 7)];
    let long_ks: Vec<usize> = if TINY {
        let mut v: Vec<usize> = (29..=36).collect();
        v.extend([63, 64, 65, 127, 128, 129]);
        if !quick {
            v.extend(37..=62);
            v.extend([255, 256, 257]);
        }
        v
    } else if quick {
        vec![31, 32, 33, 40]
    } else {
        vec![15, 16, 17, 30, 31, 32, 33, 34, 40, 63, 64, 65]
    };
    let long_deltas = if TINY { -2i64..=2 } else { -1i64..=1 };
    let long_followers: Vec<Option<usize>> = if TINY { vec![None, Some(0), Some(1), Some(BLOCK - 7)] } else { vec![None, Some(1)] };
    let starts: Vec<usize> = starts.into_iter().filter(|s| prefix_for(*s).is_some()).collect();
    let next = AtomicUsize::new(0);
    let merged = Mutex::new(Stats::default());
    std::thread::scope(|scope| {
        for _ in 0..num_threads() {
            scope.spawn(|| {
                let mut stats = Stats::default();
                loop {
                    let i = next.fetch_add(1, Ordering::SeqCst);
                    if i >= starts.len() {
                        break;
                    }
                    let start = starts[i];
                    let prefix = prefix_for(start).unwrap();
                    // long entries (dozens of frames), lengths chosen relative to the start offset so
                    // that the entry ends exactly at / just before / just after a block end
                    let room = if BLOCK - start % BLOCK >= 7 { BLOCK - start % BLOCK - 7 } else { BLOCK - 7 };
                    let mut cases: Vec<(usize, Option<usize>, Option<usize>)> = Vec::new();
                    for k in &long_ks {
                        for delta in long_deltas.clone() {
                            let len = (room + k * (BLOCK - 7)) as i64 + delta;
                            if len < 0 {
                                continue;
                            }
                            for f in &long_followers {
                                cases.push((len as usize, *f, None));
                            }
                        }
                    }
                    stats.count("long_entry_cases_(31+_frames)", cases.len() as u64);
                    for len in &lens {
                        for f in &followers {
                            for s in &seconds {
                                if f.is_none() && s.is_some() {
                                    continue;
                                }
                                cases.push((*len, *f, *s));
                            }
                        }
                    }
                    for (len, f, s) in &cases {
                        {
                            {
                                let mut entries = prefix.clone();
                                entries.push(entry_bytes(1, *len));
                                if let Some(f) = f {
                                    entries.push(entry_bytes(2, *f));
                                }
                                if let Some(s) = s {
                                    entries.push(entry_bytes(3, *s));
                                }
                                stats.evaluations += 1;
                                stats.traces += 1;
                                stats.transitions += entries.len() as u64;
                                let res = guarded(|| round_trip(&entries));
                                let rem = (BLOCK - start % BLOCK) % BLOCK;
                                stats.nontrivial(&(start, *len, *f, *s));
                                let fail = match res {
                                    Ok(Ok((cursor, _))) => {
                                        stats.state(&(cursor % BLOCK, cursor / BLOCK));
                                        if rem < 7 && start % BLOCK != 0 {
                                            stats.count("cases_starting_with_less_than_a_header_left", 1);
                                        }
                                        if (start + 7 + *len) % BLOCK == 0 {
                                            stats.count("cases_ending_exactly_at_block_end", 1);
                                        }
                                        if rem == 7 && *len > 0 {
                                            stats.count("cases_with_empty_first_frame", 1);
                                        }
                                        None
                                    }
                                    Ok(Err(e)) => Some(("round-trip-mismatch", e)),
                                    Err(p) => Some(("panic", p)),
                                };
                                if let Some((sig, what)) = fail {
                                    stats.violation(Violation {
                                        property: "C07".into(),
                                        signature: sig.into(),
                                        what: format!("start offset {} in block (bytes left {}), entry of {} bytes, followers {:?} {:?}: {}", start, BLOCK - start % BLOCK, len, f, s, what),
                                        case: json!({"engine":"frame","start_offset":start,"entry_len":len,"follower_len":f,"second_follower_len":s}),
                                    });
                                }
                            }
                        }
                    }
                }
                merged.lock().unwrap().merge(stats);
            });
        }
    });
    part.stats.merge(merged.into_inner().unwrap());
    // long sequences: a multi-frame entry straddling the K-th frame of one replay, for K at the
    // widths a frame / entry counter could have (2^8, 2^16; quick: the entry's frames cover K;
    // thorough: every offset of the boundary inside the entry and 2^17 as well)
    {
        let ks: Vec<usize> = if quick { vec![256, 65536] } else { vec![256, 4096, 65536, 131072] };
        let mut stats = Stats::default();
        for k in ks {
            for j in 0..=6usize {
                for small in [0usize, 3] {
                    let mut entries: Vec<Vec<u8>> = Vec::with_capacity(k + 4);
                    for i in 0..k.saturating_sub(j) {
                        entries.push(entry_bytes(i % 200, small));
                    }
                    entries.push(entry_bytes(201, 4 * (BLOCK - 7) + 10));
                    entries.push(entry_bytes(202, small));
                    entries.push(entry_bytes(203, BLOCK));
                    stats.evaluations += 1;
                    stats.traces += 1;
                    stats.transitions += entries.len() as u64;
                    stats.count("frame_count_boundary_cases", 1);
                    stats.nontrivial(&("frame-count", k, j, small));
                    match guarded(|| round_trip(&entries)) {
                        Ok(Ok(_)) => {}
                        Ok(Err(e)) => stats.violation(Violation {
                            property: "C07".into(),
                            signature: "round-trip-mismatch".into(),
                            what: format!("{} entries of {} bytes, then an entry of {} bytes (its frames straddle the {}th frame of the replay), then two more: {}", k - j, small, 4 * (BLOCK - 7) + 10, k, e),
                            case: json!({"engine":"frame","frame_count_boundary":k,"small_entries_before":k - j,"small_entry_len":small}),
                        }),
                        Err(p) => stats.violation(Violation { property: "C07".into(), signature: "panic".into(), what: p, case: json!({"engine":"frame","frame_count_boundary":k,"small_entries_before":k - j,"small_entry_len":small}) }),
                    }
                }
            }
        }
        part.stats.merge(stats);
    }
    part.bounds = json!({
        "grid": {
            "start_offsets": starts.len(), "start_offset_values": if TINY { json!("0 and 7..=64 (1..6 cannot be reached: a frame is at least 7 bytes)") } else { json!(starts) },
            "entry_lengths": lens.len(), "entry_length_range": [lens.first(), lens.last()],
            "followers": followers.len(), "second_followers": seconds.len(),
            "long_entries": {"whole_frames_after_the_first (k)": long_ks, "byte_deltas_around_exact_block_end": [*long_deltas.start(), *long_deltas.end()], "followers": long_followers, "entry_len": "room left in the start block - 7 + k*(BLOCK-7) + delta"},
        }
    });
    part.stats.sample(|| json!({"start_offset": 57, "entry_len": 3, "follower_len": 0, "second_follower_len": null, "meaning": "prefix entry of 50 bytes brings the cursor to 57 (7 bytes left = exactly one header): the 3-byte entry gets an empty First frame"}));
    part.require_outcomes(&["cases_starting_with_less_than_a_header_left", "cases_ending_exactly_at_block_end", "cases_with_empty_first_frame"]);
}

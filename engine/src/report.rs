//! Counting what was explored, collecting violations, writing the part file the `check` driver
//! merges into /verif/evidence/<id>.json.
use std::collections::{BTreeMap, HashSet};
use std::hash::{Hash, Hasher};
use std::path::PathBuf;
use std::time::Instant;

use serde_json::{json, Value};

#[derive(Clone, Debug)]
pub struct Violation {
    pub property: String,
    /// Stable identifier of the *kind* of failure, matched against KNOWN_FINDINGS.json.
    pub signature: String,
    pub what: String,
    /// Everything needed to re-execute this single case (`mrlmc replay <file>`).
    pub case: Value,
}

/// Per-thread statistics; merged at the end of a run.
#[derive(Default)]
pub struct Stats {
    /// executions of the real code (one history, one crash image recovery, one damaged open ...)
    pub evaluations: u64,
    /// API calls / recoveries executed on the implementation
    pub transitions: u64,
    /// histories (traces) executed on the implementation and compared with the oracle
    pub traces: u64,
    pub states: HashSet<u64>,
    /// distinct non-trivial cases by the engine's stated rule
    pub nontrivial: HashSet<u64>,
    pub outcomes: BTreeMap<String, u64>,
    pub counters: BTreeMap<String, u64>,
    pub violations: Vec<Violation>,
    pub violation_count: u64,
    /// violations whose signature is not a recorded known finding
    pub unknown_violation_count: u64,
    pub samples: Vec<Value>,
    pub diverged: u64,
}

pub const MAX_KEPT_VIOLATIONS: usize = 40;
/// (property, signature) of the recorded known findings (status "known"), set once by main.
pub static KNOWN_SIGNATURES: std::sync::OnceLock<Vec<(String, String)>> = std::sync::OnceLock::new();
/// A worker that has met this many violations (known findings not counted) stops, and makes the
/// others stop at their next work item: the verdict is settled, and a badly broken tree can make
/// every single case a violation.
pub const STOP_AFTER_VIOLATIONS: u64 = 300;
pub static STOP_EXPLORATION: std::sync::atomic::AtomicBool = std::sync::atomic::AtomicBool::new(false);
pub const SET_CAP: usize = 3_000_000;
pub const MAX_SAMPLES: usize = 6;

impl Stats {
    pub fn outcome(&mut self, label: &str) {
        *self.outcomes.entry(label.to_string()).or_insert(0) += 1;
    }
    pub fn count(&mut self, label: &str, n: u64) {
        *self.counters.entry(label.to_string()).or_insert(0) += n;
    }
    pub fn max(&mut self, label: &str, n: u64) {
        let e = self.counters.entry(label.to_string()).or_insert(0);
        if n > *e {
            *e = n;
        }
    }
    /// The fingerprint sets are only there to be counted: each thread stops adding beyond
    /// SET_CAP entries (the reported counts are then lower bounds, flagged by a counter).
    pub fn state<T: Hash>(&mut self, t: &T) {
        if self.states.len() < SET_CAP {
            self.states.insert(hash_of(t));
        } else {
            self.counters.insert("fingerprint_sets_capped_(counts_are_lower_bounds)".into(), 1);
        }
    }
    pub fn nontrivial<T: Hash>(&mut self, t: &T) {
        if self.nontrivial.len() < SET_CAP {
            self.nontrivial.insert(hash_of(t));
        } else {
            self.counters.insert("fingerprint_sets_capped_(counts_are_lower_bounds)".into(), 1);
        }
    }
    pub fn violation(&mut self, v: Violation) {
        self.violation_count += 1;
        if !KNOWN_SIGNATURES.get().map(|k| k.iter().any(|(p, s)| *p == v.property && *s == v.signature)).unwrap_or(false) {
            self.unknown_violation_count += 1;
        }
        // keep at most a few per signature so that one noisy kind cannot hide another
        let same = self
            .violations
            .iter()
            .filter(|x| x.signature == v.signature)
            .count();
        if same < 5 && self.violations.len() < MAX_KEPT_VIOLATIONS {
            self.violations.push(v);
        }
    }
    pub fn sample(&mut self, v: impl FnOnce() -> Value) {
        if self.samples.len() < MAX_SAMPLES {
            self.samples.push(v());
        }
    }
    pub fn merge(&mut self, other: Stats) {
        self.evaluations += other.evaluations;
        self.transitions += other.transitions;
        self.traces += other.traces;
        self.states.extend(other.states);
        self.nontrivial.extend(other.nontrivial);
        for (k, v) in other.outcomes {
            *self.outcomes.entry(k).or_insert(0) += v;
        }
        for (k, v) in other.counters {
            if k.starts_with("max_") {
                let e = self.counters.entry(k).or_insert(0);
                if v > *e {
                    *e = v;
                }
            } else {
                *self.counters.entry(k).or_insert(0) += v;
            }
        }
        self.violation_count += other.violation_count;
        self.unknown_violation_count += other.unknown_violation_count;
        for v in other.violations {
            let same = self
                .violations
                .iter()
                .filter(|x| x.signature == v.signature)
                .count();
            if same < 5 && self.violations.len() < MAX_KEPT_VIOLATIONS {
                self.violations.push(v);
            }
        }
        for s in other.samples {
            if self.samples.len() < MAX_SAMPLES {
                self.samples.push(s);
            }
        }
        self.diverged += other.diverged;
    }
}

pub fn hash_of<T: Hash>(t: &T) -> u64 {
    let mut h = Fnv(0xcbf29ce484222325);
    t.hash(&mut h);
    h.finish()
}

pub struct Fnv(pub u64);
impl Hasher for Fnv {
    fn finish(&self) -> u64 {
        let mut x = self.0;
        x ^= x >> 33;
        x = x.wrapping_mul(0xff51afd7ed558ccd);
        x ^= x >> 33;
        x
    }
    fn write(&mut self, bytes: &[u8]) {
        for b in bytes {
            self.0 = (self.0 ^ *b as u64).wrapping_mul(0x100000001b3);
        }
    }
}

/// Description of one run of one property on one geometry.
pub struct Part {
    pub property: String,
    pub tier: String,
    pub seed: u64,
    pub geometry: String,
    pub started: Instant,
    pub stats: Stats,
    pub rule: String,
    pub bounds: Value,
    pub assumptions: Vec<String>,
    pub exhaustive: bool,
    pub caps_hit: Vec<String>,
    /// vacuity / determinism failures: machinery errors (exit 2), never verdicts
    pub machinery_errors: Vec<String>,
    pub extra: serde_json::Map<String, Value>,
}

impl Part {
    pub fn new(property: &str, tier: &str, seed: u64) -> Part {
        Part {
            property: property.to_string(),
            tier: tier.to_string(),
            seed,
            geometry: crate::geometry_name().to_string(),
            started: Instant::now(),
            stats: Stats::default(),
            rule: String::new(),
            bounds: json!({}),
            assumptions: vec![
                "the code explored is /repo's working tree built with --cfg mrecordlog_verif (additive hooks: fs shim, virtual clock, seeded hasher, frame events, ticks); with the flag off the crate is token-identical".into(),
                "all file access of the crate goes through the shim (File/OpenOptions, read_dir, remove_file); the in-memory directory behaves like the real file system (a sample of every run is re-executed on tmpfs and compared)".into(),
                "behaviour is parametric in the two geometry constants (64 B x 4 and 32 KiB x 4 blocks per file are explored; production uses 32 KiB x 4096)".into(),
                "bounds: op sequences up to the stated depth after each seed, payload sizes and positions from the stated menus, queues a, b, f (and a missing zz)".into(),
            ],
            exhaustive: true,
            caps_hit: vec![],
            machinery_errors: vec![],
            extra: serde_json::Map::new(),
        }
    }

    /// Outcome labels that the profile must have produced at least once; a missing one means
    /// the exploration was vacuous for that behaviour.
    pub fn require_outcomes(&mut self, labels: &[&str]) {
        for l in labels {
            if self.stats.outcomes.get(*l).copied().unwrap_or(0) == 0
                && self.stats.counters.get(*l).copied().unwrap_or(0) == 0
            {
                self.machinery_errors
                    .push(format!("vacuous: outcome/counter '{}' never observed", l));
            }
        }
    }

    pub fn to_json(&self, replay_dir: &PathBuf, known: &[KnownFinding]) -> (Value, i32) {
        let mut violation_lines = vec![];
        let mut known_lines = vec![];
        let mut new_violations = 0u64;
        let mut known_hits: BTreeMap<String, u64> = BTreeMap::new();
        for v in &self.stats.violations {
            if let Some(k) = known
                .iter()
                .find(|k| k.status == "known" && k.property == v.property && k.signature == v.signature)
            {
                *known_hits.entry(k.signature.clone()).or_insert(0) += 1;
                continue;
            }
            new_violations += 1;
            let mut case = v.case.clone();
            if let Value::Object(m) = &mut case {
                m.insert("property".into(), json!(v.property));
                m.insert("signature".into(), json!(v.signature));
                m.insert("what".into(), json!(v.what));
                m.insert("geometry".into(), json!(self.geometry));
            }
            let text = serde_json::to_string_pretty(&case).unwrap();
            let name = format!(
                "{}-{}-{:016x}.json",
                v.property,
                self.geometry,
                hash_of(&text)
            );
            let _ = std::fs::create_dir_all(replay_dir);
            let path = replay_dir.join(name);
            let _ = std::fs::write(&path, text);
            violation_lines.push(json!({"property": v.property, "signature": v.signature, "what": v.what, "replay": path.to_string_lossy()}));
        }
        for (sig, n) in &known_hits {
            let k = known.iter().find(|k| &k.signature == sig).unwrap();
            known_lines.push(json!({"property": k.property, "signature": sig, "what": k.description, "cases_kept": n}));
        }
        let wall = self.started.elapsed().as_secs_f64();
        let mut caps_hit = self.caps_hit.clone();
        if STOP_EXPLORATION.load(Ordering::SeqCst) {
            caps_hit.push(format!("exploration stopped early: a worker met {} violations", STOP_AFTER_VIOLATIONS));
        }
        let v = json!({
            "property_id": self.property,
            "tier": self.tier,
            "seed": self.seed,
            "geometry": self.geometry,
            "wall_s": wall,
            "evaluations": self.stats.evaluations,
            "transitions": self.stats.transitions,
            "traces": self.stats.traces,
            "states": self.stats.states.len(),
            "distinct_nontrivial": self.stats.nontrivial.len(),
            "outcomes": self.stats.outcomes,
            "counters": self.stats.counters,
            "samples": self.stats.samples,
            "diverged_histories": self.stats.diverged,
            "rule": self.rule,
            "bounds": self.bounds,
            "assumptions": self.assumptions,
            "exhaustive": self.exhaustive && caps_hit.is_empty(),
            "caps_hit": caps_hit,
            "machinery_errors": self.machinery_errors,
            "violations_total": self.stats.violation_count,
            "violations_new": new_violations,
            "violation_lines": violation_lines,
            "known_finding_lines": known_lines,
            "extra": Value::Object(self.extra.clone()),
        });
        let code = if new_violations > 0 {
            1
        } else if !self.machinery_errors.is_empty() {
            2
        } else {
            0
        };
        (v, code)
    }
}

#[derive(Clone, Debug, serde::Deserialize)]
pub struct KnownFinding {
    pub property: String,
    pub signature: String,
    /// "known" (recorded, not repaired: suppresses matching violations) or "fixed" (suppresses
    /// nothing)
    pub status: String,
    pub description: String,
}

pub fn load_known(path: &str) -> Vec<KnownFinding> {
    match std::fs::read_to_string(path) {
        Ok(text) => {
            let v: Value = serde_json::from_str(&text).expect("KNOWN_FINDINGS.json must parse");
            let arr = v.get("findings").cloned().unwrap_or(json!([]));
            serde_json::from_value(arr).expect("KNOWN_FINDINGS.json: bad entry")
        }
        Err(_) => vec![],
    }
}


// ---------------------------------------------------------------------------------------------
// watchdog: a hang of the code under test that makes no file-system call and passes no tick
// (so that the deterministic tick budget cannot see it) must not hang the check.

use std::sync::atomic::{AtomicU64, Ordering};
use std::sync::Mutex;

pub const MAX_WORKERS: usize = 256;
static BEATS: [AtomicU64; MAX_WORKERS] = [const { AtomicU64::new(0) }; MAX_WORKERS];
static DESCR: Mutex<Vec<String>> = Mutex::new(Vec::new());
static NEXT_SLOT: AtomicU64 = AtomicU64::new(0);
static START: std::sync::OnceLock<Instant> = std::sync::OnceLock::new();

thread_local! {
    static SLOT: std::cell::Cell<usize> = const { std::cell::Cell::new(usize::MAX) };
}

fn now_ms() -> u64 {
    START.get_or_init(Instant::now).elapsed().as_millis() as u64 + 1
}

fn slot() -> usize {
    SLOT.with(|s| {
        if s.get() == usize::MAX {
            let n = NEXT_SLOT.fetch_add(1, Ordering::SeqCst) as usize % MAX_WORKERS;
            s.set(n);
            let mut d = DESCR.lock().unwrap();
            while d.len() <= n {
                d.push(String::new());
            }
        }
        s.get()
    })
}

/// Called by a worker when it starts a new leaf (history / image).
pub fn watchdog_leaf(descr: impl FnOnce() -> String) {
    let n = slot();
    if let Ok(mut d) = DESCR.lock() {
        d[n] = descr();
    }
    BEATS[n].store(now_ms(), Ordering::Relaxed);
}

/// Called before every execution of the code under test.
pub fn watchdog_beat() {
    let n = SLOT.with(|s| s.get());
    if n != usize::MAX {
        BEATS[n].store(now_ms(), Ordering::Relaxed);
    }
}

/// Called when a worker is done.
pub fn watchdog_idle() {
    let n = SLOT.with(|s| s.get());
    if n != usize::MAX {
        BEATS[n].store(0, Ordering::Relaxed);
    }
}

/// Spawns the watchdog thread: if a worker makes no progress for `limit_s` seconds the process
/// writes a part file reporting the stall and exits (1 for the properties that forbid hangs,
/// 2 otherwise).
pub fn watchdog_start(property: String, tier: String, seed: u64, out: Option<PathBuf>, replay_dir: PathBuf, limit_s: u64) {
    let _ = now_ms();
    std::thread::spawn(move || loop {
        std::thread::sleep(std::time::Duration::from_secs(2));
        let now = now_ms();
        for n in 0..MAX_WORKERS {
            let b = BEATS[n].load(Ordering::Relaxed);
            if b != 0 && now.saturating_sub(b) > limit_s * 1000 {
                let descr = DESCR.lock().map(|d| d.get(n).cloned().unwrap_or_default()).unwrap_or_default();
                let hang_is_verdict = property == "C10" || property == "C11";
                let what = format!("the code under test made no progress for more than {} s (no file-system call, no tick) while working on: {}", limit_s, descr);
                let _ = std::fs::create_dir_all(&replay_dir);
                let path = replay_dir.join(format!("{}-{}-watchdog-{:016x}.json", property, crate::geometry_name(), hash_of(&descr)));
                let case: Value = serde_json::from_str(&descr).unwrap_or(json!({"leaf": descr}));
                let _ = std::fs::write(&path, serde_json::to_string_pretty(&json!({"property": property, "signature": "hang-without-progress", "what": what, "geometry": crate::geometry_name(), "case": case})).unwrap());
                let v = json!({
                    "property_id": property, "tier": tier, "seed": seed, "geometry": crate::geometry_name(), "wall_s": now as f64 / 1000.0,
                    "evaluations": 1, "transitions": 1, "traces": 1, "states": 1, "distinct_nontrivial": 2,
                    "outcomes": {}, "counters": {}, "samples": [case], "diverged_histories": 0,
                    "rule": "run aborted by the watchdog", "bounds": {}, "assumptions": [], "exhaustive": false,
                    "caps_hit": ["aborted by the watchdog"],
                    "machinery_errors": if hang_is_verdict { json!([]) } else { json!([what.clone()]) },
                    "violations_total": if hang_is_verdict { 1 } else { 0 }, "violations_new": if hang_is_verdict { 1 } else { 0 },
                    "violation_lines": if hang_is_verdict { json!([{"property": property, "signature": "hang-without-progress", "what": what, "replay": path.to_string_lossy()}]) } else { json!([]) },
                    "known_finding_lines": [], "extra": {},
                });
                let text = serde_json::to_string_pretty(&v).unwrap();
                match &out {
                    Some(p) => {
                        let _ = std::fs::write(p, text);
                    }
                    None => println!("{}", text),
                }
                crate::exec::cleanup_scratch_base();
                std::process::exit(if hang_is_verdict { 1 } else { 2 });
            }
        }
    });
}

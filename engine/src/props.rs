//! Per-property profiles: what is enumerated, with which monitors, at which tier.
use serde_json::json;

use crate::crash::{crash_leaf, CrashCfg, Oracle};
use crate::exec::PolicyCfg;
use crate::ops::*;
use crate::report::Part;
use crate::seeds::*;
use crate::seq::*;

fn quick(part: &Part) -> bool {
    part.tier != "thorough"
}

fn run_seq(part: &mut Part, profiles: Vec<Profile>, mons: Vec<Monitors>) {
    self_checks(&profiles, part);
    let mut descr = vec![];
    for p in &profiles {
        descr.push(p.describe());
    }
    let stats = explore(&profiles, part.seed, |env, leaf| {
        for mon in &mons {
            run_leaf(env, leaf, mon);
        }
    });
    part.stats.merge(stats);
    part.bounds = json!({
        "profiles": descr,
        "configurations": mons.iter().map(|m| json!({"policy": m.policy.unwrap_or(PolicyCfg::Default).name(), "hash_seed": m.hash_seed})).collect::<Vec<_>>(),
    });
    part.stats.sample(|| json!("see bounds.profiles: every sequence of `depth` letters of the alphabet after each seed was executed"));
}

fn run_crash(part: &mut Part, profiles: Vec<Profile>, cfgs: Vec<CrashCfg>) {
    self_checks(&profiles, part);
    let mut descr = vec![];
    for p in &profiles {
        descr.push(p.describe());
    }
    let stats = explore(&profiles, part.seed, |env, leaf| {
        for cfg in &cfgs {
            crash_leaf(env, leaf, cfg);
        }
    });
    part.stats.merge(stats);
    if part.stats.counters.get("TRACE_DOES_NOT_EXPLAIN_DIRECTORY").copied().unwrap_or(0) > 0 {
        part.machinery_errors.push("the fs trace does not explain the directory content (a file-system access bypasses the shim?)".into());
    }
    if part.stats.counters.get("power_loss_image_cap_hit").copied().unwrap_or(0) > 0 {
        part.caps_hit.push(format!("power-loss images: at some crash points the per-file combinations exceeded {} and were reduced to the two corners plus one file at a time", if TINY { 1024 } else { 64 }));
    }
    let prev = part.bounds.clone();
    part.bounds = json!({
        "previous": prev,
        "crash_profiles": descr,
        "crash_points": "for each explored prefix, inside its last op: the boundary before, after every file-system effect (create, set_len, write, unlink), and inside every write at every byte (real geometry: first/last 64 bytes, around block boundaries, every 4096th byte of writes > 512 bytes)",
        "configurations": cfgs.iter().map(|c| json!({"policy": c.policy.name(), "hash_seed": c.hash_seed, "power_loss": c.power_loss, "second_crash": c.second_crash, "continuation_depth_structural": c.cont_struct, "continuation_depth_other": c.cont_other})).collect::<Vec<_>>(),
    });
    part.stats.sample(|| json!("see bounds.crash_profiles; each history x each crash point x (second crash) x continuation was executed on the real code"));
}

/// In the real geometry (128 KiB files: every image copy costs) the quick tier keeps every
/// `keep`-th seed only; the thorough tier and the 64-byte geometry use all of them.
fn thin(seeds: Vec<Seed>, keep: usize, quick: bool) -> Vec<Seed> {
    if !TINY && quick {
        seeds.into_iter().step_by(keep).collect()
    } else {
        seeds
    }
}

/// Runs `f` on every leaf of `profiles` with queue a's name longer than a block.
fn explore_long_names<F: Fn(&mut Env, &Leaf) + Sync>(part: &mut Part, profiles: Vec<Profile>, f: F) {
    let descr: Vec<_> = profiles.iter().map(|p| p.describe()).collect();
    let stats = explore(&profiles, part.seed, |env, leaf| {
        set_long_names(true);
        f(env, leaf);
        set_long_names(false);
    });
    part.stats.merge(stats);
    part.extra.insert("long_name_profiles(queue a has a name longer than a block)".into(), json!(descr));
}

fn long_names_vec() -> Vec<String> {
    set_long_names(true);
    let v = default_names();
    set_long_names(false);
    v
}

/// Second SEQ pass of a property with queue a's name longer than a block: empty seed only (the
/// planned seeds assume 1-byte names).
fn run_seq_long_names(part: &mut Part, alphabet: Vec<Op>, depth: usize, mons: Vec<Monitors>) {
    let b0 = part.bounds.clone();
    let mons: Vec<Monitors> = mons.into_iter().map(|m| Monitors { names: Some(long_names_vec()), ..m }).collect();
    run_seq(part, vec![prof("empty x alphabet, queue a has a name longer than a block", vec![seed_empty()], alphabet, depth)], mons);
    part.bounds = json!({"short_names": b0, "long_names": part.bounds.clone()});
}

/// Third SEQ pass, unusual but legal queue names; empty seed only. Set 1: queue a has the empty
/// name, queue b a 9-byte name of 2-, 3- and 4-byte UTF-8 sequences (byte length != char count).
/// Set 2: a = "x", b = "x\0/\n" (an extension of a's name containing NUL, '/' and newline), the
/// never-created queue = "X" (a's name in upper case).
fn odd_name_sets() -> Vec<Vec<String>> {
    let mut n1 = default_names();
    n1[0] = String::new();
    n1[1] = "\u{e9}\u{20ac}\u{1F600}".to_string();
    let mut n2 = default_names();
    n2[0] = "x".to_string();
    n2[1] = "x\0/\n".to_string();
    n2[2] = "X".to_string();
    vec![n1, n2]
}

fn run_seq_odd_names(part: &mut Part, alphabet: Vec<Op>, depth: usize, mons: Vec<Monitors>) {
    let b0 = part.bounds.clone();
    let mut all = vec![];
    for names in odd_name_sets() {
        all.extend(mons.iter().cloned().map(|m| Monitors { names: Some(names.clone()), ..m }));
    }
    run_seq(part, vec![prof("empty x alphabet, unusual queue names (empty, multi-byte UTF-8; x, x+NUL+'/'+newline, X)", vec![seed_empty()], alphabet, depth)], all);
    part.bounds = json!({"other_names": b0, "odd_names": part.bounds.clone()});
}

/// Fourth SEQ pass: the never-created queue has a name longer than 65535 bytes (two variants whose
/// length, taken modulo 2^16, makes them alias the empty name / the name "x" that queue a carries),
/// and the alphabet tries to create and delete it.
fn oversize_name_sets() -> Vec<Vec<String>> {
    let mut v = vec![];
    for set in [2u8, 3] {
        set_name_set(set);
        v.push(default_names());
        set_name_set(0);
    }
    v
}

fn run_seq_oversize_names(part: &mut Part, depth: usize, mons: Vec<Monitors>) {
    let b0 = part.bounds.clone();
    let mut all = vec![];
    for names in oversize_name_sets() {
        all.extend(mons.iter().cloned().map(|m| Monitors { names: Some(names.clone()), ..m }));
    }
    run_seq(part, vec![prof("empty x (A_shapes + create/delete of a queue whose name is longer than 65535 bytes)", vec![seed_empty()], a_shapes_oversize(), depth)], all);
    part.bounds = json!({"other_names": b0, "oversize_names": part.bounds.clone()});
}

/// The shallow "every seed" profile shared by all properties.
fn all_seeds_prof(alphabet: Vec<Op>, tiny_depth: usize, q: bool) -> Profile {
    let seeds = if TINY { all_seeds() } else { thin(all_seeds(), 4, q) };
    prof("every seed x alphabet (shallow)", seeds, alphabet, if TINY { tiny_depth } else { 1 })
}

/// The same without the two very large seeds (crash / damage / fault engines).
fn light_seeds_prof(alphabet: Vec<Op>, tiny_depth: usize, q: bool) -> Profile {
    let seeds = if TINY { all_seeds_light() } else { thin(all_seeds_light(), 4, q) };
    prof("every seed but the three largest x alphabet (shallow)", seeds, alphabet, if TINY { tiny_depth } else { 1 })
}

fn prof(name: &str, seeds: Vec<Seed>, alphabet: Vec<Op>, depth: usize) -> Profile {
    Profile {
        name: name.to_string(),
        seeds,
        alphabet,
        depth,
    }
}

pub fn run(part: &mut Part) {
    let q = quick(part);
    match part.property.as_str() {
        "C05" => {
            let profiles = if TINY {
                vec![
                    prof("empty x A_full", vec![seed_empty()], a_full(), if q { 4 } else { 5 }),
                    prof(
                        "structural seeds x A_full",
                        structural_seeds(),
                        a_full(),
                        if q { 3 } else { 4 },
                    ),
                    all_seeds_prof(a_full(), 2, q),
                    prof("queues a,b created x special payload sizes", vec![seed_ab()], a_sizes(), if q { 3 } else { 4 }),
                    prof("sliding window of records longer than a block x (appends around a block, truncates)", sliding_window_seeds(), a_window(), if q { 3 } else { 5 }),
                    prof("long queue of 400-600 byte records x A_full", vec![seed_hoarder_big(140)], a_full(), if q { 2 } else { 3 }),
                ]
            } else {
                vec![prof("queues a,b created x special payload sizes", vec![seed_ab()], a_sizes(), if q { 2 } else { 3 }),
                    prof("sliding window of 33-50 KB records x (appends around 32 KiB, truncates)", sliding_window_seeds(), a_window(), if q { 2 } else { 4 }),
                    prof(
                    "empty+structural x A_full",
                    {
                        let mut s = vec![seed_empty()];
                        s.extend(structural_seeds());
                        s
                    },
                    a_full(),
                    if q { 2 } else { 3 },
                )]
            };
            let mon = Monitors {
                property: "C05",
                conformance: true,
                accessors: true,
                ..Default::default()
            };
            run_seq(part, profiles, vec![mon.clone()]);
            run_seq_long_names(part, a_full(), if TINY { if q { 3 } else { 4 } } else { 1 }, vec![mon.clone()]);
            run_seq_odd_names(part, a_full(), if TINY { 3 } else { 1 }, vec![mon.clone()]);
            run_seq_odd_names(part, a_shapes(), if TINY { if q { 3 } else { 4 } } else { 2 }, vec![mon.clone()]);
            run_seq_oversize_names(part, if TINY { if q { 3 } else { 4 } } else { 2 }, vec![mon]);
            part.rule = "every op sequence of the stated depth over the alphabet, after every seed; after every op the return value is compared with the reference model and, once per distinct prefix, every read accessor for all range-bound shapes; distinct_nontrivial = distinct (model state, outcome) pairs at which the full accessor comparison ran".into();
            if TINY {
                part.require_outcomes(&["ring_wrapped_reads", "err-past", "append-noop", "err-missing", "err-exists", "truncated-n"]);
            }
        }
        "C01" => {
            let seeds_hash = probe_hash_seeds(&["a", "b", "f"], if q || !TINY { 2 } else { 6 });
            let mut file_end = cursor_seeds(&[3], &[0, 1, 6, 7, 8, 19, 34]);
            file_end.extend(all_dead_seeds());
            let profiles = if TINY {
                vec![
                    prof("empty x A_roll", vec![seed_empty()], a_roll(), if q { 4 } else { 5 }),
                    prof("structural seeds x A_roll", structural_seeds(), a_roll(), if q { 3 } else { 4 }),
                    prof("cursor near file end / all-dead file x A_roll", file_end, a_roll(), if q { 3 } else { 4 }),
                    all_seeds_prof(a_roll(), if q { 2 } else { 3 }, q),
                    prof("queues a,b created x special payload sizes", vec![seed_ab()], a_sizes(), if q { 3 } else { 4 }),
                    prof("mass release (5-33 files by one call) x (roll over, release, restart)", mass_release_seeds(), a_release(), if q { 4 } else { 5 }),
                ]
            } else {
                let mut s = vec![seed_empty()];
                s.extend(structural_seeds());
                s.extend(file_end);
                vec![prof("empty+structural+file-end x A_roll", s, a_roll(), if q { 2 } else { 3 }), prof("queues a,b created x special payload sizes", vec![seed_ab()], a_sizes(), if q { 2 } else { 3 }),
                    prof("mass release (5-17 files by one call) x (roll over, release, restart)", mass_release_seeds().into_iter().take(3).collect(), a_release(), if q { 3 } else { 4 })]
            };
            let mons: Vec<Monitors> = seeds_hash
                .iter()
                .map(|(hs, _)| Monitors {
                    property: "C01",
                    hash_seed: *hs,
                    conformance: true,
                    reopen_state: true,
                    final_reopen: true,
                    final_appends: true,
                    ..Default::default()
                })
                .collect();
            let mut mons = mons;
            // the same under policies that keep entries in the user-space buffer between calls
            for pol in [PolicyCfg::DoNothing, PolicyCfg::DelayAltFlush] {
                let mut m = mons[0].clone();
                m.policy = Some(pol);
                mons.push(m);
            }
            part.extra.insert("hash_seed_orders".into(), json!(seeds_hash));
            run_seq(part, profiles, mons);
            // the log begins with the continuation frames of an entry whose head was deleted
            let salpha = vec![Op::app(QA, Pos::Auto, Sz::EmbTail), Op::app(QA, Pos::Auto, Sz::L), Op::app(QB, Pos::Auto, Sz::S3), Op::Trunc { q: QA, at: Tr::Last }, Op::Trunc { q: QA, at: Tr::First }, Op::Delete(QA), Op::Reopen];
            let sprofiles = vec![prof("straddle seeds x (entry-shaped tail payload, truncates, restart)", straddle_seeds(), salpha, if TINY { if q { 3 } else { 4 } } else { 3 })];
            let smon = Monitors { property: "C01", conformance: true, reopen_state: true, final_reopen: true, final_appends: true, ..Default::default() };
            let b00 = part.bounds.clone();
            run_seq(part, sprofiles, vec![smon]);
            part.bounds = json!({"main": b00, "straddle": part.bounds.clone()});
            // queue names longer than a block (real geometry: the maximum, 65535 bytes)
            let long = if TINY { "N".repeat(BLOCK + 6) } else { "N".repeat(65535) };
            let names = vec![long, "b".to_string(), "zz".to_string(), "f".to_string()];
            let lprofiles = vec![prof("empty x A_roll, queue a has a name longer than a block", vec![seed_empty()], a_roll(), if TINY { if q { 3 } else { 4 } } else if q { 2 } else { 3 })];
            let lmon = Monitors { property: "C01", names: Some(names), conformance: true, reopen_state: true, final_reopen: true, final_appends: true, ..Default::default() };
            let b0 = part.bounds.clone();
            run_seq(part, lprofiles, vec![lmon.clone()]);
            part.bounds = json!({"short_names": b0, "long_names": part.bounds.clone()});
            run_seq_odd_names(part, a_roll(), if TINY { if q { 3 } else { 4 } } else { 2 }, vec![lmon.clone()]);
            run_seq_odd_names(part, a_shapes(), if TINY { if q { 3 } else { 4 } } else { 2 }, vec![lmon.clone()]);
            run_seq_oversize_names(part, if TINY { if q { 3 } else { 4 } } else { 2 }, vec![lmon]);
            part.rule = "every op sequence of the stated depth over the alphabet (Reopen = clean drop + open is a letter, so restarts are inserted at every point), after every seed, for each hasher seed; the observable state (queue set, positions, payload bytes, next position) is compared with the reference model after every Reopen and after a final Reopen, followed by one auto append per queue; distinct_nontrivial = distinct (model state, number of WAL files, seed) at which a restart was checked".into();
            part.require_outcomes(&["restarts_checked", "reopened", "deleted", "truncated-n"]);
        }
        "C04" => {
            let seeds_hash = probe_hash_seeds(&["a", "b", "f"], if q || !TINY { 2 } else { 6 });
            let mut seeds = vec![seed_empty_old(), seed_gc_ready(), seed_two_files(), seed_three_files(), seed_interleaved(), seed_future(), seed_recreated()];
            seeds.extend(all_dead_seeds());
            let profiles = if TINY {
                vec![
                    prof("GC seeds x A_roll", seeds, a_roll(), if q { 3 } else { 4 }),
                    prof("empty x A_roll", vec![seed_empty()], a_roll(), if q { 4 } else { 5 }),
                    all_seeds_prof(a_roll(), if q { 2 } else { 3 }, q),
                ]
            } else {
                vec![prof("GC seeds x A_roll", seeds, a_roll(), if q { 2 } else { 3 })]
            };
            let mons: Vec<Monitors> = seeds_hash
                .iter()
                .map(|(hs, _)| Monitors {
                    property: "C04",
                    hash_seed: *hs,
                    c04: true,
                    final_reopen: true,
                    final_appends: true,
                    ..Default::default()
                })
                .collect();
            part.extra.insert("hash_seed_orders".into(), json!(seeds_hash));
            run_seq(part, profiles, mons.clone());
            run_seq_odd_names(part, a_shapes(), if TINY { if q { 3 } else { 4 } } else { 2 }, vec![mons[0].clone()]);
            run_seq_oversize_names(part, if TINY { if q { 3 } else { 4 } } else { 2 }, vec![mons[0].clone()]);
            // crash part: after recovery from any crash point no position handed out or truncated-to
            // by a completed call may be reachable again
            let mut cseeds = vec![seed_empty_old(), seed_gc_ready(), seed_two_files(), seed_future()];
            cseeds.extend(gc_spill_seeds().into_iter().step_by(if q { 3 } else { 1 }));
            let mut c4alpha = a_write();
            // an entry whose frames add up to exactly one WAL file
            c4alpha.push(Op::app(QA, Pos::Auto, Sz::N((FILE - 59) as u32)));
            let cprofiles = vec![prof("GC seeds x (A_write + an entry exactly one file long) (crash)", cseeds, c4alpha.clone(), if TINY { if q { 2 } else { 3 } } else { 1 }), light_seeds_prof(c4alpha, if q { 1 } else { 2 }, q)];
            let ccfgs: Vec<CrashCfg> = seeds_hash.iter().map(|(hs, _)| CrashCfg {
                property: "C04", oracle: Oracle::C04, policy: PolicyCfg::Default, hash_seed: *hs, power_loss: false, second_crash: true, cont_struct: 1, cont_other: if q { 0 } else { 1 }, initial_open: false, pre_cut_last_file: None,
            }).collect();
            run_crash(part, cprofiles, ccfgs);
            part.rule = "SEQ part: every op sequence of the stated depth after seeds in which a queue is empty/idle while its files are rolled over and deleted; model-free monitor per queue incarnation: every assigned position exceeds every position appended or truncated-to before, automatic positions continue exactly from it, also after Reopen and in the final Reopen + append on every queue. CRASH part: every crash point of every history from the GC seeds (both orders of GC position entries, second crash in recovery): after recovery every queue created by a completed call exists and its last position is not below the highest position appended or truncated-to by completed calls; continuation appends conform".into();
            part.require_outcomes(&["reopened", "appended", "truncated-n"]);
        }
        "C06" => {
            let mut seeds = vec![seed_two_files(), seed_three_files(), seed_interleaved(), seed_empty_old(), seed_gc_ready()];
            seeds.extend(cursor_seeds(&[3], &[0, 1, 6, 7, 8, 19, 34]));
            seeds.extend(gc_spill_seeds());
            seeds.push(seed_many_files(7));
            let profiles = if TINY {
                vec![
                    prof("multi-file seeds x A_roll", seeds, a_roll(), if q { 3 } else { 4 }),
                    prof("empty x A_roll", vec![seed_empty()], a_roll(), if q { 4 } else { 5 }),
                    all_seeds_prof(a_roll(), if q { 2 } else { 3 }, q),
                ]
            } else {
                vec![prof("multi-file seeds x A_roll", seeds, a_roll(), if q { 2 } else { 3 })]
            };
            let mons = vec![
                Monitors { property: "C06", c06: true, ..Default::default() },
                Monitors { property: "C06", c06: true, policy: Some(PolicyCfg::DoNothing), ..Default::default() },
                Monitors { property: "C06", c06: true, policy: Some(PolicyCfg::DelayAltFlush), ..Default::default() },
            ];
            run_seq(part, profiles, mons);
            // open after a crash: every crash point of the last op, then the listing after recovery
            let mut cseeds = vec![seed_two_files(), seed_three_files(), seed_gc_ready(), seed_empty_old()];
            cseeds.extend(cursor_seeds(&[3], &[0, 8, 19, 34]));
            cseeds.extend(gc_spill_seeds().into_iter().step_by(3));
            let cseeds = thin(cseeds, 3, q);
            let mut calpha = a_write();
            calpha.push(Op::app(QA, Pos::Auto, Sz::XL));
            let cprofiles = vec![prof("multi-file seeds x (A_write + XL), crash + recovery", cseeds, calpha.clone(), if TINY { if q { 2 } else { 3 } } else { 1 }), light_seeds_prof(calpha, if q { 1 } else { 2 }, q)];
            let ccfgs: Vec<CrashCfg> = [PolicyCfg::Default, PolicyCfg::DoNothing].iter().map(|pol| CrashCfg {
                property: "C06", oracle: Oracle::C06, policy: *pol, hash_seed: 0, power_loss: false, second_crash: false, cont_struct: 0, cont_other: 0, initial_open: false, pre_cut_last_file: None,
            }).collect();
            run_crash(part, cprofiles, ccfgs);
            part.rule = "every op sequence of the stated depth after multi-file seeds; after every truncate / delete_queue / open the real directory listing is compared with the harness's own attribution (file that received the first byte each retained record's append call wrote, from frame events) ; distinct_nontrivial = distinct (file list, oldest attributed file, file at call begin, call kind). Open after a crash: every crash point of the last op of every history of the crash profile (flush-per-op and DoNothing policies), recovery, then the same listing check against the records that were recovered".into();
            part.require_outcomes(&["c06_checks", "c06_calls_deleting_files"]);
        }
        "C13" => {
            let profiles = if TINY {
                vec![
                    prof("empty x A_full", vec![seed_empty()], a_full(), if q { 3 } else { 4 }),
                    prof("structural seeds x A_full", structural_seeds(), a_full(), if q { 3 } else { 4 }),
                    prof("cursor at block/file end, all-dead file x A_full", { let mut v = cursor_seeds(&[0, 3], &[0, 6, 7, 19]); v.extend(all_dead_seeds()); v }, a_full(), if q { 3 } else { 4 }),
                    all_seeds_prof(a_full(), 2, q),
                ]
            } else {
                let mut s = vec![seed_empty()];
                s.extend(structural_seeds());
                s.extend(cursor_seeds(&[3], &[0, 7]));
                vec![prof("empty+structural+file-end x A_full", s, a_full(), if q { 2 } else { 3 })]
            };
            let mons = vec![
                Monitors { property: "C13", c13: true, policy: Some(PolicyCfg::Default), ..Default::default() },
                Monitors { property: "C13", c13: true, policy: Some(PolicyCfg::DoNothing), ..Default::default() },
            ];
            run_seq(part, profiles, mons.clone());
            // OnDelay policies whose interval elapses between particular calls: a rejected / no-op
            // call must not be the one that flushes what earlier calls left in the buffer
            {
                let b0 = part.bounds.clone();
                let dmons: Vec<Monitors> = if q { vec![PolicyCfg::DelayAltFlush1, PolicyCfg::DelayMod3Flush2] } else { vec![PolicyCfg::DelayAltFlush1, PolicyCfg::DelayMod3Flush2, PolicyCfg::DelayMod3Flush0, PolicyCfg::DelayAltFlush] }
                    .iter()
                    .map(|p| Monitors { property: "C13", c13: true, policy: Some(*p), ..Default::default() })
                    .collect();
                run_seq(part, vec![prof("empty x A_full under OnDelay with the interval elapsing before every 2nd / 3rd call", vec![seed_empty()], a_full(), if TINY { if q { 3 } else { 4 } } else { 2 })], dmons);
                part.bounds = json!({"always_and_never_flushing": b0, "on_delay": part.bounds.clone()});
            }
            run_seq_long_names(part, a_full(), if TINY { if q { 2 } else { 3 } } else { 1 }, mons.clone());
            run_seq_odd_names(part, a_shapes(), if TINY { if q { 2 } else { 3 } } else { 1 }, mons.clone());
            run_seq_oversize_names(part, if TINY { if q { 2 } else { 3 } } else { 1 }, mons);
            part.rule = "every op sequence of the stated depth over A_full (which contains every rejected / no-op call shape, on existing and missing queues); for every call the model rejects or acknowledges as a no-op: the I/O + frame trace of the call has no write/create/set_len/unlink/frame event, wal_bytes_written is 0, the observable state and (once per prefix) the flushed WAL file bytes are unchanged; at the end the history is re-run without those calls and both directories are reopened and compared; policies Always(Flush) and DoNothing".into();
            part.require_outcomes(&["rejected_or_noop_calls_checked", "err-past", "append-noop", "err-missing", "err-exists", "restart_comparisons_with_vs_without_rejected_calls"]);
        }
        "C15" => {
            let mut seeds = vec![seed_empty(), seed_empty_old(), seed_gc_ready(), seed_two_files()];
            seeds.extend(cursor_seeds(&[0, 3], &[0, 1, 2, 3, 4, 5, 6, 7, 8]));
            seeds.extend(all_dead_seeds());
            seeds.extend(gc_spill_seeds().into_iter().step_by(3));
            let mut alpha = a_roll();
            alpha.push(Op::app(QA, Pos::Retry, Sz::S3));
            alpha.push(Op::Append { q: QA, pos: Pos::Auto, sizes: vec![] });
            let profiles = if TINY {
                vec![prof("cursor + GC seeds x (A_roll + no-op shapes)", seeds, alpha.clone(), if q { 3 } else { 5 }), all_seeds_prof(alpha, if q { 2 } else { 3 }, q), prof("queues a,b created x special payload sizes", vec![seed_ab()], a_sizes(), if q { 2 } else { 3 })]
            } else {
                vec![prof("cursor + GC seeds x (A_roll + no-op shapes)", seeds, alpha, if q { 2 } else { 3 })]
            };
            let mons = vec![
                Monitors { property: "C15", c15: true, policy: Some(PolicyCfg::Default), ..Default::default() },
                Monitors { property: "C15", c15: true, policy: Some(PolicyCfg::DoNothing), ..Default::default() },
            ];
            run_seq(part, profiles, mons.clone());
            run_seq_long_names(part, a_roll(), if TINY { if q { 3 } else { 4 } } else { 2 }, mons);
            part.rule = "every op sequence of the stated depth after seeds that put the write cursor at block_end-k and file_end-k (k=0..8) and that prepare GC work; per call: wal_bytes_written == sum of frame+padding bytes handed to the WAL writer (frame events) == bytes that reached the files during the call (flush-per-op policy); consecutive frames are contiguous in the WAL (so the running sum is the cursor)".into();
            part.require_outcomes(&["calls_0_bytes", "calls_with_bytes", "calls_with_padding", "calls_with_gc", "calls_with_gc_position_entries"]);
        }
        "C16" => {
            let profiles = if TINY {
                vec![
                    prof("empty x A_full", vec![seed_empty()], a_full(), if q { 4 } else { 5 }),
                    prof("structural seeds x A_full", structural_seeds(), a_full(), if q { 3 } else { 4 }),
                    prof("big-buffer seeds x A_full", vec![seed_big_buffer(QA), seed_big_buffer(QB)], a_full(), if q { 2 } else { 3 }),
                    all_seeds_prof(a_full(), 2, q),
                    prof("long queues of 400-600 byte records x A_full", vec![seed_hoarder_big(70), seed_hoarder_big(140)], a_full(), if q { 2 } else { 3 }),
                ]
            } else {
                let mut s = vec![seed_empty(), seed_big_buffer(QA)];
                s.extend(structural_seeds());
                vec![prof("empty+structural+big-buffer x A_full", s, a_full(), if q { 2 } else { 3 }),
                    prof("long queues of 400-600 byte records x A_full", vec![seed_hoarder_big(70), seed_hoarder_big(140)], a_full(), if q { 2 } else { 3 })]
            };
            let mon = Monitors { property: "C16", c16: true, ..Default::default() };
            run_seq(part, profiles, vec![mon]);
            part.rule = "every op sequence of the stated depth over A_full; after every call: retained payload + names <= memory_used_bytes <= that + 64 bytes per retained record, used <= allocated, a truncation lowers used by at least the evicted payload bytes, used == names when every queue is empty; distinct_nontrivial = distinct (payload bytes, name bytes, records, used)".into();
            part.require_outcomes(&["truncations_evicting"]);
        }
        "C02" => {
            let mut seeds = vec![seed_ab(), seed_two_files(), seed_gc_ready(), seed_empty_old(), seed_recreated()];
            seeds.extend(cursor_seeds(&[0, 3], &[0, 6, 7, 8, 19, 34]));
            seeds.extend(gc_spill_seeds());
            let seeds = thin(seeds, 3, q);
            let mut aw = a_write();
            aw.push(Op::app(QA, Pos::Auto, Sz::XL));
            // an entry whose frames add up to exactly one WAL file (5 frames from mid-block / 4 from a
            // block start): the cursor comes back to the same offset, one file further
            aw.push(Op::app(QA, Pos::Auto, Sz::N((FILE - 59) as u32)));
            let profiles = if TINY {
                vec![
                    prof("empty x (A_write + XL)", vec![seed_empty()], aw.clone(), if q { 3 } else { 4 }),
                    prof("seeds x (A_write + XL)", seeds, aw.clone(), if q { 2 } else { 3 }),
                    light_seeds_prof(aw, if q { 1 } else { 2 }, q),
                ]
            } else {
                let mut s = vec![seed_empty()];
                s.extend(seeds);
                vec![prof("empty+seeds x (A_write + XL)", s, aw, if q { 1 } else { 2 })]
            };
            let hs = probe_hash_seeds(&["a", "b", "f"], if q { 1 } else { 2 });
            let policies: Vec<PolicyCfg> = if q { vec![PolicyCfg::Default] } else { vec![PolicyCfg::Default, PolicyCfg::AlwaysFsync] };
            // every hasher seed under the default policy; the other flushing policies with the first seed
            let first = hs[0].0;
            let cfgs: Vec<CrashCfg> = hs.iter().flat_map(|(h, _)| policies.iter().map(move |pol| (*h, *pol))).filter(|(h, pol)| *pol == PolicyCfg::Default || *h == first).map(|(h, pol)| CrashCfg {
                property: "C02",
                oracle: Oracle::C02,
                policy: pol,
                hash_seed: h,
                power_loss: false,
                second_crash: true,
                cont_struct: 2,
                cont_other: 1,
                initial_open: true,
                pre_cut_last_file: None,
            }).collect();
            run_crash(part, profiles, cfgs.clone());
            {
                let mut cfg0 = cfgs[0].clone();
                if !TINY {
                    // 65535-byte names make every image and every continuation op expensive
                    cfg0.cont_other = 0;
                    cfg0.cont_struct = 1;
                }
                let lalpha = vec![Op::Create(QA), Op::Delete(QA), Op::app(QA, Pos::Auto, Sz::S3), Op::Trunc { q: QA, at: Tr::Last }, Op::Create(QB), Op::app(QB, Pos::Auto, Sz::S3), Op::Reopen];
                explore_long_names(part, vec![prof("empty x 7 ops, long name", vec![seed_empty()], lalpha, if TINY { if q { 3 } else { 4 } } else if q { 1 } else { 2 })], move |env, leaf| crash_leaf(env, leaf, &cfg0));
            }
            part.rule = "every history of the bound x every crash point inside its last op (every fs-effect prefix, every byte of every write) -> directory image rebuilt from the trace -> real open(): must succeed and yield the state before or after the in-flight op (or a partial truncate/delete); every crash point of the recovery's own writes is applied on top and recovered again; then every continuation sequence (depth 1-2 over 7 ops) + restart must behave as on the model. distinct_nontrivial is not separately measured here (states = distinct recovered fingerprints)".into();
            part.require_outcomes(&["continuations", "recoveries_with_writes_(second_crash_enumerated)"]);
        }
        "C03" => {
            let mut seeds = vec![seed_empty(), seed_ab(), seed_two_files(), seed_gc_ready(), seed_empty_old()];
            seeds.extend(cursor_seeds(&[3], &[0, 8, 34]));
            seeds.extend(gc_spill_seeds());
            let seeds = thin(seeds, 3, q);
            let mut alpha = a_write();
            alpha.push(Op::Persist(false));
            alpha.push(Op::Persist(true));
            alpha.push(Op::app(QA, Pos::Auto, Sz::XL));
            alpha.push(Op::app(QA, Pos::Auto, Sz::N((FILE - 59) as u32)));
            let profiles = if TINY {
                vec![prof("seeds x (A_write + Persist + XL)", seeds, alpha.clone(), if q { 2 } else { 3 }), light_seeds_prof(alpha, if q { 1 } else { 2 }, q),
                    // a GC pass that has to record the positions of thirty-odd empty queues
                    prof("32 queues, most of them empty x (truncate, append)", vec![seed_many_queues()], vec![Op::Trunc { q: QA, at: Tr::Last }, Op::Trunc { q: QA, at: Tr::First }, Op::app(QA, Pos::Auto, Sz::S3), Op::Delete(QA)], if q { 1 } else { 2 })]
            } else {
                vec![prof("seeds x (A_write + Persist + XL)", seeds, alpha, if q { 1 } else { 2 })]
            };
            let mut cfgs = vec![];
            let mut policies = vec![PolicyCfg::DoNothing, PolicyCfg::DelayExpiredFsync, PolicyCfg::AlwaysFlush, PolicyCfg::AlwaysFsync, PolicyCfg::DelayAltFlush];
            if !q {
                policies.extend([PolicyCfg::DelayNeverFlush, PolicyCfg::DelayNeverFsync, PolicyCfg::DelayExpiredFlush, PolicyCfg::DelayAltFlush1]);
            }
            for policy in policies {
                for power_loss in [false, true] {
                    cfgs.push(CrashCfg {
                        property: "C03",
                        oracle: Oracle::C03,
                        policy,
                        hash_seed: 0,
                        power_loss,
                        second_crash: false,
                        // under the policies that persist every call: one more call after the
                        // recovery, then a restart (what was acknowledged after a crash recovery
                        // survives too)
                        cont_struct: 1,
                        cont_other: 1,
                        initial_open: false,
                        pre_cut_last_file: None,
                    });
                }
            }
            run_crash(part, profiles, cfgs);
            // start from a directory whose newest WAL file was created but never sized (the state a
            // crash between create_new and set_len leaves): the whole alphabet, every policy pair and
            // both loss models from there. (Other lengths of the newest file cannot be produced by the
            // crate under either loss model and are outside what C03 quantifies over - see DESIGN 9.)
            {
                let b0 = part.bounds.clone();
                let mut pseeds = vec![seed_ab(), seed_two_files(), seed_three_files()];
                pseeds.extend(cursor_seeds(&[3], &[0, 8]));
                let mut palpha = a_write();
                palpha.push(Op::Persist(true));
                palpha.push(Op::app(QA, Pos::Auto, Sz::XL));
                let pprofiles = vec![prof("seed closed, newest file emptied (created, not yet sized), reopened x (A_write + Persist + XL)", pseeds, palpha, if TINY { if q { 2 } else { 3 } } else { 1 })];
                let mut pcfgs = vec![];
                for cut in [0usize] {
                    for policy in if q { vec![PolicyCfg::AlwaysFsync, PolicyCfg::DoNothing] } else { vec![PolicyCfg::AlwaysFsync, PolicyCfg::DoNothing, PolicyCfg::AlwaysFlush] } {
                        for power_loss in [false, true] {
                            pcfgs.push(CrashCfg { property: "C03", oracle: Oracle::C03, policy, hash_seed: 0, power_loss, second_crash: false, cont_struct: 0, cont_other: 0, initial_open: false, pre_cut_last_file: Some(cut) });
                        }
                    }
                }
                run_crash(part, pprofiles, pcfgs);
                part.bounds = json!({"from_empty_directory": b0, "from_a_directory_whose_newest_file_was_created_but_not_sized": part.bounds.clone()});
            }
            part.rule = "5 (thorough: 9) policy configurations x 2 loss models x every history of the bound (explicit persist ops and a roll-over append in the alphabet) x every crash point inside the last op; process crash: image = what reached the OS; power loss: image = durable prefix of directory ops x per-file prefix of unsynced effects; oracle: recovered state is S_j (or a partial truncate/delete of S_j) for some j >= the last persisted point. distinct_nontrivial = distinct (persisted point, crashed op, policy, matched state)".into();
            part.assumptions.push("power-loss model: file data durable up to its last fdatasync, unsynced effects survive as any prefix per file; directory operations durable as a prefix after the last directory fsync".into());
        }
        "C12" => {
            // crash half; the damage half is added by the DAMAGE engine
            let batch = |q: u8, sizes: Vec<Sz>| Op::Append { q, pos: Pos::Auto, sizes };
            let alpha = vec![
                batch(QA, vec![Sz::S1, Sz::S0, Sz::S5]),
                batch(QA, vec![Sz::S3, Sz::L]),
                batch(QA, vec![Sz::L, Sz::S3, Sz::L, Sz::S1]),
                batch(QA, vec![Sz::S5, Sz::XL, Sz::S3]),
                batch(QB, vec![Sz::S3, Sz::S3]),
                // from a block start: first frame = entry header + record 0, middle frame = record 1
                // exactly, last frame = record 2 (sub-record boundaries coincide with frame ends)
                batch(QA, vec![Sz::N((BLOCK - 31) as u32), Sz::N((BLOCK - 19) as u32), Sz::S3]),
                batch(QA, vec![Sz::N((BLOCK - 31) as u32), Sz::N((BLOCK - 19) as u32), Sz::N((BLOCK - 19) as u32), Sz::N((BLOCK - 19) as u32), Sz::S1]),
                Op::Trunc { q: QA, at: Tr::First },
                Op::Trunc { q: QA, at: Tr::Mid },
                Op::app(QA, Pos::Auto, Sz::S3),
                Op::Reopen,
            ];
            let mut seeds = vec![seed_ab()];
            seeds.extend(cursor_seeds(&[0, 3], &[0, 6, 7, 8, 19, 34, 40]));
            let profiles = vec![prof("cursor seeds x batch alphabet", seeds, alpha, if TINY { if q { 2 } else { 3 } } else if q { 1 } else { 2 })];
            let cfgs = vec![CrashCfg {
                property: "C12",
                oracle: Oracle::C12,
                policy: PolicyCfg::Default,
                hash_seed: 0,
                power_loss: false,
                second_crash: false,
                cont_struct: 0,
                cont_other: 0,
                initial_open: false, pre_cut_last_file: None,
            }];
            let dmg_profiles = vec![prof("cursor seeds x batch alphabet (damage)", { let mut s = vec![seed_ab()]; s.extend(cursor_seeds(&[0, 3], &[0, 7, 8, 34])); s }, profiles[0].alphabet.clone(), if TINY { if q { 1 } else { 2 } } else { 1 })];
            run_crash(part, profiles, cfgs);
            let stats = explore(&dmg_profiles, part.seed, |env, leaf| {
                crate::damage::c12_damage_leaf(env, leaf);
                // two damaged places: a checksum failure in an earlier entry + the fault on the batch
                crate::damage::c12_damage_leaf_with(env, leaf, if q { 4 } else { usize::MAX });
            });
            part.stats.merge(stats);
            // any in-place fault anywhere in images with batches (queue deleted / re-created before)
            let any_alpha = vec![
                batch(QA, vec![Sz::S1, Sz::S0, Sz::S5, Sz::S3]),
                batch(QB, vec![Sz::S3, Sz::S3]),
                Op::app(QB, Pos::Auto, Sz::L),
                Op::Delete(QA),
                Op::Create(QA),
                Op::Trunc { q: QA, at: Tr::First },
            ];
            let any_profiles = vec![prof("re-created / multi-file seeds x (batches, filler, delete, create)", thin(vec![seed_recreated_from_zero(), seed_recreated(), seed_ab(), seed_two_files()], 2, q), any_alpha, if TINY { if q { 2 } else { 3 } } else { 1 })];
            let any_descr: Vec<_> = any_profiles.iter().map(|p| p.describe()).collect();
            let stats = explore(&any_profiles, part.seed, |env, leaf| crate::damage::c12_anyfault_leaf(env, leaf));
            part.stats.merge(stats);
            part.extra.insert("any_fault_profiles".into(), json!(any_descr));
            part.require_outcomes(&["batch-absent"]);
            part.rule = "histories of multi-record batches (1 frame .. several blocks .. across two WAL files) at cursor seeds block_end-k / file_end-k, followed by partial truncations; every crash point inside the last op; oracle independent of the model: each batch's recovered positions are none, all, or a suffix whose missing head is covered by an issued truncation, bytes identical; damage half: every frame of every batch x every payload/CRC/header alteration, and the whole in-place fault menu (every byte x 14 values, zero ranges, every length-field value) anywhere in images that contain batches after a queue was deleted and re-created; same oracle".into();
        }
        "C14" => {
            let mut alpha = a_roll();
            alpha.push(Op::Persist(false));
            alpha.push(Op::Persist(true));
            let mut seeds = vec![seed_ab(), seed_two_files(), seed_gc_ready(), seed_empty_old(), seed_future()];
            seeds.extend(gc_spill_seeds().into_iter().take(3));
            let profiles = if TINY {
                vec![
                    prof("empty x (A_roll+Persist)", vec![seed_empty()], alpha.clone(), if q { 4 } else { 5 }),
                    prof("seeds x (A_roll+Persist)", seeds, alpha.clone(), if q { 3 } else { 4 }),
                    all_seeds_prof(alpha, 2, q),
                ]
            } else {
                let mut s = vec![seed_empty()];
                s.extend(seeds);
                vec![prof("empty+seeds x (A_roll+Persist)", s, alpha, if q { 2 } else { 3 })]
            };
            let descr: Vec<_> = profiles.iter().map(|p| p.describe()).collect();
            let stats = explore(&profiles, part.seed, |env, leaf| c14_leaf(env, leaf));
            part.stats.merge(stats);
            part.bounds = json!({"profiles": descr, "configurations": C14_CONFIGS.iter().map(|c| c.name()).collect::<Vec<_>>()});
            part.stats.sample(|| json!("every sequence of bounds.profiles was executed under each of the 7 configurations"));
            part.rule = "every op sequence of the stated depth (explicit persist calls are letters) executed under 11 policy/clock configurations (virtual clock: OnDelay never expiring, always expired, elapsing before every second op (both parities) and before every third op (three phases)); return values (positions, eviction counts, errors) and observable states must agree with the first configuration after every op and after drop + open".into();
            part.require_outcomes(&["persisted", "appended", "truncated-n", "deleted"]);
        }
        "C18" => {
            let mut seeds = vec![seed_ab(), seed_two_files(), seed_three_files(), seed_interleaved(), seed_gc_ready(), seed_empty_old()];
            seeds.extend(gc_spill_seeds().into_iter().take(4));
            let profiles = if TINY {
                vec![
                    prof("empty x A_roll", vec![seed_empty()], a_roll(), if q { 5 } else { 6 }),
                    prof("shared-file seeds x A_roll", seeds.clone(), a_roll(), if q { 3 } else { 4 }),
                    all_seeds_prof(a_roll(), if q { 2 } else { 3 }, q),
                    prof("mass release (5-33 files by one call) x (roll over, release, restart)", mass_release_seeds(), a_release(), if q { 4 } else { 5 }),
                    prof("shared-file seeds x A_shapes (explicit positions 0 / next / far, truncations to 0 and 2^61, mixed empty payloads)", seeds.clone(), a_shapes(), if q { 2 } else { 3 }),
                ]
            } else {
                let mut s = vec![seed_empty()];
                s.extend(seeds);
                vec![prof("empty+shared-file seeds x A_roll", s, a_roll(), if q { 2 } else { 3 }),
                    prof("mass release (5-17 files by one call) x (roll over, release, restart)", mass_release_seeds().into_iter().take(3).collect(), a_release(), if q { 3 } else { 4 })]
            };
            let descr: Vec<_> = profiles.iter().map(|p| p.describe()).collect();
            let stats = explore(&profiles, part.seed, |env, leaf| c18_leaf(env, leaf));
            part.stats.merge(stats);
            // a third queue whose name is longer than 65535 bytes (aliasing, modulo 2^16, the name
            // of queue a): calls addressed to it must not change a or b either
            for set in [2u8, 3] {
                let oprofiles = vec![prof("empty x (A_shapes + create/delete of a queue with a name longer than 65535 bytes)", vec![seed_empty()], a_shapes_oversize(), if TINY { if q { 3 } else { 4 } } else { 2 })];
                let stats = explore(&oprofiles, part.seed, |env, leaf| {
                    set_name_set(set);
                    c18_leaf(env, leaf);
                    set_name_set(0);
                });
                part.stats.merge(stats);
            }
            // crash variant: every crash point inside the last call of the history, when that call
            // is addressed to the other queue
            let mut cseeds = vec![seed_ab(), seed_two_files(), seed_interleaved()];
            cseeds.extend(cursor_seeds(&[3], &[0, 8, 34]));
            let mut calpha = a_write();
            calpha.push(Op::app(QA, Pos::Auto, Sz::XL));
            calpha.push(Op::app(QB, Pos::Auto, Sz::XL));
            let cprofiles = vec![prof("seeds x (A_write + XL), crash inside the last call", cseeds, calpha.clone(), if TINY { if q { 2 } else { 3 } } else { 1 }), light_seeds_prof(calpha, 1, q)];
            let cdescr: Vec<_> = cprofiles.iter().map(|p| p.describe()).collect();
            let stats = explore(&cprofiles, part.seed, |env, leaf| crate::crash::c18_crash_leaf(env, leaf));
            part.stats.merge(stats);
            part.bounds = json!({"profiles": descr, "crash_profiles": cdescr});
            part.stats.sample(|| json!("every sequence of bounds.profiles, and for each of the queues a and b its projection, was executed"));
            part.rule = "for every history H of the bound and q in {a,b}: H and H restricted to the calls addressed to q (restarts kept) are executed on the real code; q's return values and observable content must agree after every call of q, and after recovering a copy of the live directory taken at the end (op-boundary crash); no reference model is involved in the verdict. Crash variant: for every history whose last call is addressed to the other queue, every crash point inside that call (every fs-effect prefix, every byte of every write): q's content right after recovery and through [append to q, restart] x 2 must equal what the projected history gives when crashed at the same op boundary".into();
            part.require_outcomes(&["projections_compared"]);
        }
        "C11" => {
            let seeds = vec![seed_ab(), seed_two_files(), seed_three_files(), seed_interleaved(), seed_gc_ready()];
            let mut alpha = a_write();
            alpha.push(Op::app(QA, Pos::Auto, Sz::XL));
            let profiles = vec![prof("1-3 file seeds x (A_write + XL)", seeds, alpha.clone(), if TINY { if q { 2 } else { 3 } } else if q { 1 } else { 2 }), light_seeds_prof(alpha, 1, q)];
            let descr: Vec<_> = profiles.iter().map(|p| p.describe()).collect();
            let stats = explore(&profiles, part.seed, |env, leaf| {
                for variant in 0..=4u8 {
                    crate::fault::fault_leaf(env, leaf, variant);
                }
            });
            part.stats.merge(stats);
            part.bounds = json!({"image_profiles": descr, "variants": ["clean image", "one byte of the second block damaged (block skipping on the path)"],
                "faults": "every read_dir / open / read call made by recovery (counted in a fault-free run) x {fail once, fail forever} x {PermissionDenied, Other, NotFound, TimedOut}; tick budget = 10 x fault-free ticks + 1000"});
            part.stats.sample(|| json!({"image":"seed two-files + App(a,L)","fault":{"call_kind":"open","nth":2,"mode":"forever","error":"PermissionDenied"},"expected":"Err(IoError) within the tick budget"}));
            part.rule = "for the WAL image left by every history of the bound (1 to 3 files; clean and with a damaged block): every file-system call of kind read_dir/open/read made by recovery is failed, once or forever, with each error kind; open must return Err(IoError) before the tick budget: not Ok, not Corruption, no panic, no livelock. distinct_nontrivial = distinct (call kind, index, mode, error, image)".into();
            part.assumptions.push("ErrorKind::Interrupted (retried by read_exact by contract) and UnexpectedEof on reads (defined as a short file) are not injected".into());
            part.require_outcomes(&["Err(IoError)"]);
        }
        "C07" => {
            crate::frame::run_frame(part);
            // through-files half: SEQ profile with the cursor at every file_end - k
            let ks: Vec<usize> = (0..=40).collect();
            let seeds = cursor_seeds(&[3], &ks);
            let alpha = vec![
                Op::app(QA, Pos::Auto, Sz::L),
                Op::app(QA, Pos::Auto, Sz::XL),
                Op::app(QA, Pos::Auto, Sz::S3),
                Op::app(QA, Pos::Auto, Sz::S0),
                Op::Append { q: QA, pos: Pos::Auto, sizes: vec![Sz::S5, Sz::L, Sz::S1] },
                Op::Trunc { q: QA, at: Tr::First },
                Op::Trunc { q: QA, at: Tr::Mid },
                Op::Reopen,
            ];
            let nseeds = seeds.len();
            let profiles = vec![prof("cursor@file_end-k (k=0..40) x appends", seeds, alpha, if TINY { if q { 2 } else { 3 } } else if q { 1 } else { 2 })];
            let mon = Monitors { property: "C07", conformance: true, accessors: true, reopen_state: true, final_reopen: true, ..Default::default() };
            // also with the entries parked in the user-space buffer between calls
            let mons = vec![mon.clone(), Monitors { policy: Some(PolicyCfg::DoNothing), ..mon.clone() }, Monitors { policy: Some(PolicyCfg::DelayAltFlush), ..mon }];
            let frame_bounds = part.bounds.clone();
            run_seq(part, profiles, mons);
            let seq_bounds = part.bounds.clone();
            part.bounds = json!({"frame_grid": frame_bounds, "through_files": seq_bounds, "through_files_seeds": nseeds});
            part.rule = "(1) record layer over in-memory blocks: every (start offset in block) x (entry length) x (follower length) x (second follower) of the grid is written with the real RecordWriter and read back with the real RecordReader: entries identical, in order, then end of log; (2) through files: from seeds with the write cursor at every reachable file_end-k, k=0..40, every sequence of appends (small, empty, 1.5 blocks, > 1 file, batch) and restarts, read back through range(..) after reopen and compared with the model".into();
        }
        "C08" => {
            let mut alpha = a_write();
            alpha.push(Op::app(QA, Pos::Auto, Sz::Emb));
            alpha.push(Op::app(QA, Pos::Auto, Sz::EmbTail));
            // a batch whose second record (header + payload) is exactly as long as a full frame
            // payload: losing one full middle frame leaves a buffer that still parses
            alpha.push(Op::Append { q: QA, pos: Pos::Auto, sizes: vec![Sz::N((3 * BLOCK) as u32), Sz::N((BLOCK - 19) as u32)] });
            alpha.push(Op::Append { q: QB, pos: Pos::Auto, sizes: vec![Sz::N((2 * BLOCK + 5) as u32), Sz::N((BLOCK - 19) as u32), Sz::S3] });
            let mut seeds = vec![seed_empty(), seed_ab(), seed_two_files(), seed_recreated(), seed_recreated_from_zero(), seed_gc_ready()];
            seeds.extend(cursor_seeds(&[0, 1], &[0, 7, 8]));
            let seeds = thin(seeds, 2, q);
            let profiles = vec![prof("seeds x (A_write + frame-shaped payload)", seeds, alpha, if TINY { if q { 1 } else { 2 } } else { 1 }), light_seeds_prof(vec![Op::app(QA, Pos::Auto, Sz::S3), Op::app(QA, Pos::Auto, Sz::Emb), Op::app(QB, Pos::Auto, Sz::L), Op::Trunc { q: QA, at: Tr::Last }], 1, q)];
            let descr: Vec<_> = profiles.iter().map(|p| p.describe()).collect();
            let stats = explore(&profiles, part.seed, |env, leaf| crate::damage::c08_leaf(env, leaf));
            part.stats.merge(stats);
            // two faults in two different frames
            let reach = if q { 3 } else { usize::MAX / 2 };
            let pair_profiles = vec![profiles[0].clone()];
            let stats = explore(&pair_profiles, part.seed, |env, leaf| crate::damage::c08_pairs_leaf(env, leaf, reach));
            part.stats.merge(stats);
            part.extra.insert("fault_pairs".into(), json!({"images": "first image profile", "menu_per_frame": "each other frame type; checksum field zeroed; first payload byte inverted; payload zeroed; length 0 / rest of block (images without a frame-shaped payload)", "pairs": if q { "every frame with each of the 3 frames written after it" } else { "every pair of frames" }}));
            part.bounds = json!({"image_profiles": descr, "faults": if TINY { "every byte of every WAL file x {8 bit flips, 00, FF, 01..04}; every zero-fill range of length 2,4,7,8,16,64,256 at every start; every frame's length field set to every value 0..=64" } else { "per frame: header bytes, first/last 8 payload bytes, every 1021st payload byte, 16 bytes after the end of the log, +-8 around block boundaries x 14 values; zero ranges 7/64/32768 at those starts; length field set to 14 boundary values" }});
            part.stats.sample(|| json!({"image":"seed cursor@block0end-0 + App(a, frame-shaped payload)","fault":{"kind":"length-field","new_len":24},"oracle":"every record returned after open was appended"}));
            part.rule = "for the WAL image left by every history of the bound: every single in-place fault of the menu is applied, the directory opened with the real code; if open succeeds every (queue, position, payload) returned must be one that was appended, positions strictly increasing. One payload of the alphabet is the byte image of a valid frame (the length field is not covered by the CRC)".into();
            part.require_outcomes(&["open-ok"]);
        }
        "C09" => {
            let mut seeds = vec![seed_empty(), seed_ab(), seed_two_files(), seed_recreated(), seed_recreated_from_zero(), seed_recreated_after_emptied(), seed_gc_ready(), seed_empty_old(), seed_future(), seed_interleaved()];
            seeds.extend(cursor_seeds(&[0, 3], &[0, 6, 7, 8]));
            let mut alpha = a_write();
            alpha.push(Op::Trunc { q: QA, at: Tr::Beyond });
            let profiles = vec![prof("seeds x A_write", seeds, alpha, if TINY { if q { 2 } else { 3 } } else if q { 1 } else { 2 }), light_seeds_prof(vec![Op::app(QA, Pos::Auto, Sz::S3), Op::app(QB, Pos::Auto, Sz::L), Op::Trunc { q: QA, at: Tr::Last }, Op::Delete(QA)], 1, q)];
            let descr: Vec<_> = profiles.iter().map(|p| p.describe()).collect();
            let stats = explore(&profiles, part.seed, |env, leaf| crate::damage::c09_leaf(env, leaf));
            part.stats.merge(stats);
            {
                let lalpha = vec![Op::Create(QA), Op::Delete(QA), Op::app(QA, Pos::Auto, Sz::S3), Op::Trunc { q: QA, at: Tr::Last }, Op::Create(QB), Op::app(QB, Pos::Auto, Sz::S3)];
                explore_long_names(part, vec![prof("empty x 6 ops, long name", vec![seed_empty()], lalpha, if TINY { if q { 3 } else { 4 } } else if q { 1 } else { 2 })], |env, leaf| crate::damage::c09_leaf(env, leaf));
            }
            part.bounds = json!({"image_profiles": descr, "faults": "for every frame of the image (frame table from the harness's own frame events): every payload byte and every CRC byte altered by +1, xor 0xFF, zeroed; whole payload zeroed / set to 0xFF (real geometry: first/last 16 and every 1021st payload byte)"});
            part.stats.sample(|| json!({"image":"seed recreated:a + Delete(a)","fault":{"kind":"frame-byte","part":"payload","alteration":"xor-ff"},"oracle":"open Ok; every retained record not appended by the damaged entry recovered intact, in order; extras must be genuine"}));
            part.rule = "for the WAL image left by every history of the bound (incl. queue deletion / re-creation and GC-written position entries): every frame x every payload/CRC byte alteration; open must succeed and every record the model retains, except those appended by the call that wrote the damaged frame, must be returned with identical position and bytes, in order; anything additional must have been appended".into();
            part.require_outcomes(&["recovered-everything", "recovered-with-loss-or-extras"]);
        }
        "C10" => {
            let seeds = vec![seed_ab(), seed_two_files(), seed_three_files(), seed_recreated()];
            let alpha = vec![Op::app(QA, Pos::Auto, Sz::L), Op::app(QB, Pos::Auto, Sz::S3), Op::Trunc { q: QA, at: Tr::Last }, Op::Delete(QB)];
            let k = if q { 1 } else { 2 };
            let profiles = vec![prof("1-3 file seeds x 4 ops", seeds, alpha, 1)];
            let descr: Vec<_> = profiles.iter().map(|p| p.describe()).collect();
            let kk = if TINY { k + if q { 1 } else { 0 } } else { 1 };
            let stats = explore(&profiles, part.seed, |env, leaf| crate::damage::c10_structural_leaf(env, leaf, kk));
            part.stats.merge(stats);
            let mut alpha2 = a_write();
            alpha2.push(Op::app(QA, Pos::Auto, Sz::Emb));
            let mut seeds2 = vec![seed_empty(), seed_ab(), seed_two_files(), seed_recreated_from_zero()];
            seeds2.extend(cursor_seeds(&[0, 3], &[0, 7, 8]));
            let seeds2 = thin(seeds2, 3, q);
            let profiles2 = vec![prof("seeds x A_write (in-place faults)", seeds2, alpha2.clone(), 1), light_seeds_prof(vec![Op::app(QA, Pos::Auto, Sz::S3), Op::Trunc { q: QA, at: Tr::Last }], 1, q)];
            let descr2: Vec<_> = profiles2.iter().map(|p| p.describe()).collect();
            let stats = explore(&profiles2, part.seed, |env, leaf| crate::damage::c10_inplace_leaf(env, leaf));
            part.stats.merge(stats);
            part.extra.insert("inplace_fault_profiles".into(), json!(descr2));
            crate::damage::c10_crafted(part);
            part.bounds = json!({"image_profiles": descr, "structural_damage": format!("all sequences of 1..={} ops from the menu: zero / fill (FF, 01, pattern) a block, swap two blocks, copy a block over another, truncate a file to 0/1/B-1/B/B+1/F-1 bytes, remove a file, duplicate a file under the next number / under u64::MAX, swap two files, add stray files (foreign names, 23-char name, 20 digits overflowing u64, empty valid-named file)", kk),
                "in_place": "the whole in-place fault menu of C08 (every byte x 14 values, zero ranges, every length-field value) on the images of inplace_fault_profiles, with this property's oracle",
                "crafted": "CRC-valid Full frames whose entry fields range over type 0..5 x position {0,1,5,2^62,2^64-1} x queue {empty, a, non-UTF-8} x queue_len {exact, +1, 65535} x record {position 0/5/2^64-1} x {len 0, exact, +1, 2^32-1, short header}; all sequences of <= 2 entries (thorough: <= 3 over a reduced set; real geometry quick: singles, and pairs over the reduced set)",
                "oracles": "catch_unwind (engine and crate built with overflow-checks), deterministic tick budget 100000 (H3+H5 ticks), peak allocation <= 8 x directory bytes + 1 MiB, then every read accessor of a returned log"});
            part.stats.sample(|| json!({"image":"seed two-files + App(a,L)","damage_ops":["TruncFile(0,1)","DupFileMax(1)"]}));
            part.rule = "every image of the bound x every sequence of structural damage ops up to the stated length, and every sequence of crafted CRC-valid entries: open under catch_unwind + tick budget + allocation bound; a returned log has every read accessor called".into();
            part.assumptions.push("sub-directories inside the WAL directory are exercised by C17's real-file-system runs (the in-memory directory used here is flat)".into());
            part.require_outcomes(&["open-ok", "open-err-corruption", "open-err-io"]);
        }
        "C17" => {
            let mut seeds = vec![seed_ab(), seed_two_files(), seed_three_files(), seed_gc_ready(), seed_empty_old(), seed_interleaved(), seed_collected()];
            seeds.extend(gc_spill_seeds().into_iter().take(2));
            let profiles = vec![
                prof("roll/GC seeds x A_roll", seeds, a_roll(), if TINY { if q { 2 } else { 3 } } else if q { 1 } else { 2 }),
                prof("empty x A_roll", vec![seed_empty()], a_roll(), if TINY { if q { 3 } else { 4 } } else { 2 }),
                all_seeds_prof(a_roll(), 1, q),
            ];
            let descr: Vec<_> = profiles.iter().map(|p| p.describe()).collect();
            let stats = explore(&profiles, part.seed, |env, leaf| {
                c17_leaf(env, leaf, 0);
                if !leaf.seed.ops.is_empty() {
                    c17_leaf(env, leaf, 1);
                }
                c17_leaf(env, leaf, 2);
                if !leaf.seed.ops.is_empty() {
                    c17_leaf(env, leaf, 4);
                }
                if leaf.seed.name.starts_with("collected") {
                    c17_leaf(env, leaf, 3);
                }
            });
            part.stats.merge(stats);
            part.bounds = json!({"profiles": descr, "foreign_entries": ["23-char wal name", "25-char wal name", "19 digits + letter", "24 bytes with an Arabic-Indic digit", "upper-case prefix", "sub-directory with a valid WAL name (900) holding a file", "symlink with a valid WAL name (901) to a file with valid WAL content", "dotfile", "large unrelated file", "'+' sign", "'.tmp' suffix", "xwal- prefix with 24 chars", "embedded space", "'-' sign"],
                "foreign_content": "every foreign file holds a valid WAL that creates queue \"evil\" with one record", "variants": ["foreign entries present from the start", "WAL files renumbered with gaps after the seed (k -> k + 3*rank + 2), log reopened", "a symlink to an outside file planted on the name of the next WAL file to be created (after the seed; for the empty seed: on wal-0 before the first open)", "a symlink and a sub-directory with valid WAL names on already collected numbers (seed 'collected')"], "file_system": "real (tmpfs), not the in-memory directory"});
            part.stats.sample(|| json!({"seed":"gc-ready","ops":["Trunc(0,Last)","App(1,Auto,[XL])"],"variant":"foreign-entries"}));
            part.rule = "real directory pre-populated with 14 foreign entries x every history of the bound (roll-over and GC on the path): after every explored prefix each foreign entry is byte-identical (type, content, link target, children), every name created/removed/opened/read/written/resized in the I/O trace is wal-<20 digits> and not foreign, and queue \"evil\" never appears; second variant: the seed's WAL files are renumbered with gaps and the log must reopen to the model state and keep conforming".into();
            part.require_outcomes(&["calls_deleting_wal_files", "calls_creating_wal_files", "gap_renumberings", "symlink_on_next_wal_name_cases", "symlink_on_collected_wal_name_cases"]);
        }
        other => {
            part.machinery_errors
                .push(format!("unknown property {}", other));
        }
    }
}

fn monitors_for(property: &str, policy: PolicyCfg, hash_seed: u64) -> Option<Monitors> {
    let base = Monitors { policy: Some(policy), hash_seed, ..Default::default() };
    Some(match property {
        "C01" => Monitors { property: "C01", conformance: true, reopen_state: true, final_reopen: true, final_appends: true, ..base },
        "C04" => Monitors { property: "C04", c04: true, final_reopen: true, final_appends: true, ..base },
        "C05" => Monitors { property: "C05", conformance: true, accessors: true, ..base },
        "C06" => Monitors { property: "C06", c06: true, ..base },
        "C07" => Monitors { property: "C07", conformance: true, accessors: true, reopen_state: true, final_reopen: true, ..base },
        "C13" => Monitors { property: "C13", c13: true, ..base },
        "C15" => Monitors { property: "C15", c15: true, ..base },
        "C16" => Monitors { property: "C16", c16: true, ..base },
        _ => return None,
    })
}

/// Re-executes one recorded case (a replay file written on violation) without the explorer.
pub fn replay(path: &str) -> i32 {
    use crate::crash::{crash_leaf, CrashCfg, Oracle};
    let text = match std::fs::read_to_string(path) {
        Ok(t) => t,
        Err(e) => {
            eprintln!("cannot read {}: {}", path, e);
            return 2;
        }
    };
    let case: serde_json::Value = serde_json::from_str(&text).expect("replay file must be JSON");
    let property = case["property"].as_str().unwrap_or("").to_string();
    let engine = case["engine"].as_str().unwrap_or("").to_string();
    println!("replaying {} case of engine '{}' recorded as: {}", property, engine, case["what"].as_str().unwrap_or(""));
    let mut env = Env::new();
    let seed_ops: Vec<Op> = serde_json::from_value(case["seed_ops"].clone()).unwrap_or_default();
    let ops: Vec<Op> = serde_json::from_value(case["ops"].clone()).unwrap_or_default();
    let seed = Seed { name: case["seed_name"].as_str().unwrap_or("replay").to_string(), ops: seed_ops, predicted_cursor: None };
    let idx: Vec<usize> = (0..ops.len()).collect();
    let leaf = Leaf { seed: &seed, seed_idx: 0, idx: &idx, ops: ops.iter().collect(), heavy_from: 0, heavy_seed: true };
    let policy: PolicyCfg = serde_json::from_value(case["policy"].clone()).unwrap_or(PolicyCfg::Default);
    let hash_seed = case["hash_seed"].as_u64().unwrap_or(0);
    match engine.as_str() {
        "seq" => match monitors_for(&property, policy, hash_seed) {
            Some(mut mon) => {
                if let Some(arr) = case["names"].as_array() {
                    let mut names = default_names();
                    for (i, n) in arr.iter().enumerate() {
                        if let Some(n) = n.as_str() {
                            names[i] = n.to_string();
                        }
                    }
                    mon.names = Some(names);
                }
                run_leaf(&mut env, &leaf, &mon)
            }
            None => {
                eprintln!("no sequential monitor for {}", property);
                return 2;
            }
        },
        "crash" => {
            let oracle = match case["oracle"].as_str().unwrap_or("") {
                "C03" => Oracle::C03,
                "C12" => Oracle::C12,
                "C04" => Oracle::C04,
                "C06" => Oracle::C06,
                _ => Oracle::C02,
            };
            let prop: &'static str = match property.as_str() { "C03" => "C03", "C12" => "C12", "C04" => "C04", "C06" => "C06", _ => "C02" };
            let cfg = CrashCfg { property: prop, oracle, policy, hash_seed, power_loss: case["power_loss"].as_bool().unwrap_or(false), second_crash: oracle == Oracle::C02, cont_struct: if matches!(oracle, Oracle::C02 | Oracle::C04) { 2 } else { 0 }, cont_other: if matches!(oracle, Oracle::C02 | Oracle::C04) { 2 } else { 0 }, initial_open: true, pre_cut_last_file: None };
            crash_leaf(&mut env, &leaf, &cfg);
        }
        "damage" => match property.as_str() {
            "C08" => {
                if case["fault"]["kind"] == "fault-pair" || case["damage"]["kind"] == "fault-pair" {
                    crate::damage::c08_pairs_leaf(&mut env, &leaf, usize::MAX / 2);
                } else {
                    crate::damage::c08_leaf(&mut env, &leaf);
                }
            }
            "C09" => crate::damage::c09_leaf(&mut env, &leaf),
            "C12" => {
                crate::damage::c12_damage_leaf(&mut env, &leaf);
                crate::damage::c12_damage_leaf_with(&mut env, &leaf, usize::MAX);
                crate::damage::c12_anyfault_leaf(&mut env, &leaf);
            }
            _ => crate::damage::c10_inplace_leaf(&mut env, &leaf),
        },
        "damage-structural" => {
            let sops: Vec<crate::damage::SOp> = serde_json::from_value(case["damage_ops"].clone()).unwrap_or_default();
            if let Some(d) = crate::damage::build_image(&mut env, &leaf) {
                let mut img = d.image.clone();
                for op in &sops {
                    crate::damage::apply_sop(&mut img, op);
                }
                let dir = env.scratch2.path.clone();
                crate::damage::c10_eval(&mut env, &dir, &img, || case.clone());
            }
        }
        "damage-crafted" => {
            let names: Vec<String> = serde_json::from_value(case["entries"].clone()).unwrap_or_default();
            let all = crate::damage::crafted_entries();
            let mut file = vec![0u8; FILE];
            let mut cur = 0usize;
            for n in &names {
                if let Some((_, e)) = all.iter().find(|(k, _)| k == n) {
                    let fr = crate::damage::crc_frame(1, e);
                    if BLOCK - cur % BLOCK < fr.len() {
                        cur = (cur / BLOCK + 1) * BLOCK;
                    }
                    file[cur..cur + fr.len()].copy_from_slice(&fr);
                    cur += fr.len();
                }
            }
            let mut img = crate::crash::Image::new();
            img.insert(crate::exec::wal_name(0), file);
            let dir = env.scratch2.path.clone();
            crate::damage::c10_eval(&mut env, &dir, &img, || case.clone());
        }
        "fault" => crate::fault::fault_leaf(&mut env, &leaf, case["image_variant"].as_u64().map(|v| v as u8).unwrap_or(if case["damaged_block"].as_bool().unwrap_or(false) { 1 } else { 0 })),
        "c14" => c14_leaf(&mut env, &leaf),
        "c18" => c18_leaf(&mut env, &leaf),
        "c18-crash" => crate::crash::c18_crash_leaf(&mut env, &leaf),
        "c17" => c17_leaf(&mut env, &leaf, match case["variant"].as_str().unwrap_or("") { "numbering-gaps" => 1, "symlink-on-next-wal-name" => 2, "non-regular-entries-on-collected-wal-names" => 3, "symlink-on-wal-u64-max" => 4, _ => 0 }),
        "frame" => {
            let g = |k: &str| case[k].as_u64().map(|v| v as usize);
            let mut entries: Vec<Vec<u8>> = vec![];
            if let (Some(k), Some(n), Some(small)) = (g("frame_count_boundary"), g("small_entries_before"), g("small_entry_len")) {
                let _ = k;
                for i in 0..n {
                    entries.push(crate::frame::entry_bytes(i % 200, small));
                }
                entries.push(crate::frame::entry_bytes(201, 4 * (BLOCK - 7) + 10));
                entries.push(crate::frame::entry_bytes(202, small));
                entries.push(crate::frame::entry_bytes(203, BLOCK));
            }
            let start = g("start_offset").unwrap_or(0);
            if start >= 7 {
                entries.push((0..start - 7).map(|i| ((9 * 53 + i * 7) % 251 + 1) as u8).collect());
            }
            for (tag, k) in [(1usize, "entry_len"), (2, "follower_len"), (3, "second_follower_len")] {
                if let Some(len) = g(k) {
                    entries.push((0..len).map(|i| ((tag * 53 + i * 7) % 251 + 1) as u8).collect());
                }
            }
            match guarded(|| crate::frame::round_trip(&entries)) {
                Ok(Ok(_)) => println!("round trip ok"),
                Ok(Err(e)) | Err(e) => {
                    println!("REPRODUCED: {}", e);
                    return 1;
                }
            }
            return 0;
        }
        other => {
            eprintln!("unknown engine '{}' in replay file", other);
            return 2;
        }
    }
    if env.stats.violations.is_empty() {
        println!("no violation on this case with the current tree ({} evaluations, {} diverged)", env.stats.evaluations, env.stats.diverged);
        0
    } else {
        for v in &env.stats.violations {
            println!("REPRODUCED property={} signature={}\n  {}\n  case: {}", v.property, v.signature, v.what, v.case);
        }
        1
    }
}

//! Per-property profiles: what is enumerated, with which monitors, at which tier.
use serde_json::json;

use crate::crash::{crash_leaf, CrashCfg, Oracle};
use crate::exec::PolicyCfg;
use crate::ops::*;
use crate::report::Part;
use crate::seeds::*;
use crate::seq::*;

fn quick(part: &Part) -> bool {
    part.tier != "thorough"
}

fn run_seq(part: &mut Part, profiles: Vec<Profile>, mons: Vec<Monitors>) {
    let mut descr = vec![];
    for p in &profiles {
        descr.push(p.describe());
    }
    let stats = explore(&profiles, part.seed, |env, leaf| {
        for mon in &mons {
            run_leaf(env, leaf, mon);
        }
    });
    part.stats.merge(stats);
    part.bounds = json!({
        "profiles": descr,
        "configurations": mons.iter().map(|m| json!({"policy": m.policy.unwrap_or(PolicyCfg::Default).name(), "hash_seed": m.hash_seed})).collect::<Vec<_>>(),
    });
    part.stats.sample(|| json!("see bounds.profiles: every sequence of `depth` letters of the alphabet after each seed was executed"));
}

fn run_crash(part: &mut Part, profiles: Vec<Profile>, cfgs: Vec<CrashCfg>) {
    let mut descr = vec![];
    for p in &profiles {
        descr.push(p.describe());
    }
    let stats = explore(&profiles, part.seed, |env, leaf| {
        for cfg in &cfgs {
            crash_leaf(env, leaf, cfg);
        }
    });
    part.stats.merge(stats);
    if part.stats.counters.get("TRACE_DOES_NOT_EXPLAIN_DIRECTORY").copied().unwrap_or(0) > 0 {
        part.machinery_errors.push("the fs trace does not explain the directory content (a file-system access bypasses the shim?)".into());
    }
    if part.stats.counters.get("power_loss_image_cap_hit").copied().unwrap_or(0) > 0 {
        part.caps_hit.push("power-loss images per crash point capped at 64".into());
    }
    let prev = part.bounds.clone();
    part.bounds = json!({
        "previous": prev,
        "crash_profiles": descr,
        "crash_points": "for each explored prefix, inside its last op: the boundary before, after every file-system effect (create, set_len, write, unlink), and inside every write at every byte (real geometry: first/last 64 bytes, around block boundaries, every 4096th byte of writes > 512 bytes)",
        "configurations": cfgs.iter().map(|c| json!({"policy": c.policy.name(), "hash_seed": c.hash_seed, "power_loss": c.power_loss, "second_crash": c.second_crash, "continuation_depth_structural": c.cont_struct, "continuation_depth_other": c.cont_other})).collect::<Vec<_>>(),
    });
    part.stats.sample(|| json!("see bounds.crash_profiles; each history x each crash point x (second crash) x continuation was executed on the real code"));
}

fn prof(name: &str, seeds: Vec<Seed>, alphabet: Vec<Op>, depth: usize) -> Profile {
    Profile {
        name: name.to_string(),
        seeds,
        alphabet,
        depth,
    }
}

pub fn run(part: &mut Part) {
    let q = quick(part);
    match part.property.as_str() {
        "C05" => {
            let profiles = if TINY {
                vec![
                    prof("empty x A_full", vec![seed_empty()], a_full(), if q { 4 } else { 5 }),
                    prof(
                        "structural seeds x A_full",
                        structural_seeds(),
                        a_full(),
                        if q { 3 } else { 4 },
                    ),
                ]
            } else {
                vec![prof(
                    "empty+structural x A_full",
                    {
                        let mut s = vec![seed_empty()];
                        s.extend(structural_seeds());
                        s
                    },
                    a_full(),
                    if q { 1 } else { 2 },
                )]
            };
            let mon = Monitors {
                property: "C05",
                conformance: true,
                accessors: true,
                ..Default::default()
            };
            run_seq(part, profiles, vec![mon]);
            part.rule = "every op sequence of the stated depth over the alphabet, after every seed; after every op the return value is compared with the reference model and, once per distinct prefix, every read accessor for all range-bound shapes; distinct_nontrivial = distinct (model state, outcome) pairs at which the full accessor comparison ran".into();
            if TINY {
                part.require_outcomes(&["ring_wrapped_reads", "err-past", "append-noop", "err-missing", "err-exists", "truncated-n"]);
            }
        }
        "C01" => {
            let seeds_hash = probe_hash_seeds(&["a", "b", "f"], if q { 2 } else { 6 });
            let file_end = cursor_seeds(&[3], &[0, 1, 6, 7, 8, 19, 34]);
            let profiles = if TINY {
                vec![
                    prof("empty x A_roll", vec![seed_empty()], a_roll(), if q { 4 } else { 5 }),
                    prof("structural seeds x A_roll", structural_seeds(), a_roll(), if q { 3 } else { 4 }),
                    prof("cursor near file end x A_roll", file_end, a_roll(), if q { 2 } else { 3 }),
                ]
            } else {
                let mut s = vec![seed_empty()];
                s.extend(structural_seeds());
                s.extend(file_end);
                vec![prof("empty+structural+file-end x A_roll", s, a_roll(), if q { 2 } else { 3 })]
            };
            let mons: Vec<Monitors> = seeds_hash
                .iter()
                .map(|(hs, _)| Monitors {
                    property: "C01",
                    hash_seed: *hs,
                    conformance: true,
                    reopen_state: true,
                    final_reopen: true,
                    final_appends: true,
                    ..Default::default()
                })
                .collect();
            part.extra.insert("hash_seed_orders".into(), json!(seeds_hash));
            run_seq(part, profiles, mons);
            part.rule = "every op sequence of the stated depth over the alphabet (Reopen = clean drop + open is a letter, so restarts are inserted at every point), after every seed, for each hasher seed; the observable state (queue set, positions, payload bytes, next position) is compared with the reference model after every Reopen and after a final Reopen, followed by one auto append per queue; distinct_nontrivial = distinct (model state, number of WAL files, seed) at which a restart was checked".into();
            part.require_outcomes(&["restarts_checked", "reopened", "deleted", "truncated-n"]);
        }
        "C04" => {
            let seeds_hash = probe_hash_seeds(&["a", "b", "f"], if q { 2 } else { 6 });
            let seeds = vec![seed_empty_old(), seed_gc_ready(), seed_two_files(), seed_three_files(), seed_interleaved(), seed_future(), seed_recreated()];
            let profiles = if TINY {
                vec![
                    prof("GC seeds x A_roll", seeds, a_roll(), if q { 3 } else { 4 }),
                    prof("empty x A_roll", vec![seed_empty()], a_roll(), if q { 4 } else { 5 }),
                ]
            } else {
                vec![prof("GC seeds x A_roll", seeds, a_roll(), if q { 2 } else { 3 })]
            };
            let mons: Vec<Monitors> = seeds_hash
                .iter()
                .map(|(hs, _)| Monitors {
                    property: "C04",
                    hash_seed: *hs,
                    c04: true,
                    final_reopen: true,
                    final_appends: true,
                    ..Default::default()
                })
                .collect();
            part.extra.insert("hash_seed_orders".into(), json!(seeds_hash));
            run_seq(part, profiles, mons);
            part.rule = "SEQ part: every op sequence of the stated depth after seeds in which a queue is empty/idle while its files are rolled over and deleted; model-free monitor per queue incarnation: every assigned position exceeds every position appended or truncated-to before, automatic positions continue exactly from it, also after Reopen and in the final Reopen + append on every queue".into();
            part.require_outcomes(&["reopened", "appended", "truncated-n"]);
        }
        "C06" => {
            let mut seeds = vec![seed_two_files(), seed_three_files(), seed_interleaved(), seed_empty_old(), seed_gc_ready()];
            seeds.extend(cursor_seeds(&[3], &[0, 1, 6, 7, 8, 19, 34]));
            seeds.extend(gc_spill_seeds());
            let profiles = if TINY {
                vec![
                    prof("multi-file seeds x A_roll", seeds, a_roll(), if q { 3 } else { 4 }),
                    prof("empty x A_roll", vec![seed_empty()], a_roll(), if q { 4 } else { 5 }),
                ]
            } else {
                vec![prof("multi-file seeds x A_roll", seeds, a_roll(), if q { 2 } else { 3 })]
            };
            let mon = Monitors { property: "C06", c06: true, ..Default::default() };
            run_seq(part, profiles, vec![mon]);
            part.rule = "every op sequence of the stated depth after multi-file seeds; after every truncate / delete_queue / open the real directory listing is compared with the harness's own attribution (file that received the first byte each retained record's append call wrote, from frame events) ; distinct_nontrivial = distinct (file list, oldest attributed file, file at call begin, call kind)".into();
            part.require_outcomes(&["c06_checks", "c06_calls_deleting_files"]);
        }
        "C13" => {
            let profiles = if TINY {
                vec![
                    prof("empty x A_full", vec![seed_empty()], a_full(), if q { 3 } else { 4 }),
                    prof("structural seeds x A_full", structural_seeds(), a_full(), if q { 3 } else { 4 }),
                ]
            } else {
                let mut s = vec![seed_empty()];
                s.extend(structural_seeds());
                vec![prof("empty+structural x A_full", s, a_full(), if q { 1 } else { 2 })]
            };
            let mons = vec![
                Monitors { property: "C13", c13: true, policy: Some(PolicyCfg::Default), ..Default::default() },
                Monitors { property: "C13", c13: true, policy: Some(PolicyCfg::DoNothing), ..Default::default() },
            ];
            run_seq(part, profiles, mons);
            part.rule = "every op sequence of the stated depth over A_full (which contains every rejected / no-op call shape, on existing and missing queues); for every call the model rejects or acknowledges as a no-op: the I/O + frame trace of the call has no write/create/set_len/unlink/frame event, wal_bytes_written is 0, the observable state and (once per prefix) the flushed WAL file bytes are unchanged; at the end the history is re-run without those calls and both directories are reopened and compared; policies Always(Flush) and DoNothing".into();
            part.require_outcomes(&["rejected_or_noop_calls_checked", "err-past", "append-noop", "err-missing", "err-exists", "restart_comparisons_with_vs_without_rejected_calls"]);
        }
        "C15" => {
            let mut seeds = vec![seed_empty(), seed_empty_old(), seed_gc_ready(), seed_two_files()];
            seeds.extend(cursor_seeds(&[0, 3], &[0, 1, 2, 3, 4, 5, 6, 7, 8]));
            let mut alpha = a_roll();
            alpha.push(Op::app(QA, Pos::Retry, Sz::S3));
            alpha.push(Op::Append { q: QA, pos: Pos::Auto, sizes: vec![] });
            let profiles = if TINY {
                vec![prof("cursor + GC seeds x (A_roll + no-op shapes)", seeds, alpha, if q { 3 } else { 4 })]
            } else {
                vec![prof("cursor + GC seeds x (A_roll + no-op shapes)", seeds, alpha, if q { 2 } else { 3 })]
            };
            let mons = vec![
                Monitors { property: "C15", c15: true, policy: Some(PolicyCfg::Default), ..Default::default() },
                Monitors { property: "C15", c15: true, policy: Some(PolicyCfg::DoNothing), ..Default::default() },
            ];
            run_seq(part, profiles, mons);
            part.rule = "every op sequence of the stated depth after seeds that put the write cursor at block_end-k and file_end-k (k=0..8) and that prepare GC work; per call: wal_bytes_written == sum of frame+padding bytes handed to the WAL writer (frame events) == bytes that reached the files during the call (flush-per-op policy); consecutive frames are contiguous in the WAL (so the running sum is the cursor)".into();
            part.require_outcomes(&["calls_0_bytes", "calls_with_bytes", "calls_with_padding", "calls_with_gc", "calls_with_gc_position_entries"]);
        }
        "C16" => {
            let profiles = if TINY {
                vec![
                    prof("empty x A_full", vec![seed_empty()], a_full(), if q { 4 } else { 5 }),
                    prof("structural seeds x A_full", structural_seeds(), a_full(), if q { 3 } else { 4 }),
                ]
            } else {
                let mut s = vec![seed_empty()];
                s.extend(structural_seeds());
                vec![prof("empty+structural x A_full", s, a_full(), if q { 1 } else { 2 })]
            };
            let mon = Monitors { property: "C16", c16: true, ..Default::default() };
            run_seq(part, profiles, vec![mon]);
            part.rule = "every op sequence of the stated depth over A_full; after every call: retained payload + names <= memory_used_bytes <= that + 64 bytes per retained record, used <= allocated, a truncation lowers used by at least the evicted payload bytes, used == names when every queue is empty; distinct_nontrivial = distinct (payload bytes, name bytes, records, used)".into();
            part.require_outcomes(&["truncations_evicting"]);
        }
        "C02" => {
            let mut seeds = vec![seed_ab(), seed_two_files(), seed_gc_ready(), seed_empty_old(), seed_recreated()];
            seeds.extend(cursor_seeds(&[0, 3], &[0, 6, 7, 8, 19, 34]));
            seeds.extend(gc_spill_seeds());
            let profiles = if TINY {
                vec![
                    prof("empty x A_write", vec![seed_empty()], a_write(), if q { 3 } else { 4 }),
                    prof("seeds x A_write", seeds, a_write(), if q { 2 } else { 3 }),
                ]
            } else {
                let mut s = vec![seed_empty()];
                s.extend(seeds);
                vec![prof("empty+seeds x A_write", s, a_write(), if q { 1 } else { 2 })]
            };
            let hs = probe_hash_seeds(&["a", "b", "f"], if q { 1 } else { 2 });
            let cfgs: Vec<CrashCfg> = hs.iter().map(|(h, _)| CrashCfg {
                property: "C02",
                oracle: Oracle::C02,
                policy: PolicyCfg::Default,
                hash_seed: *h,
                power_loss: false,
                second_crash: true,
                cont_struct: 2,
                cont_other: 1,
                initial_open: true,
            }).collect();
            run_crash(part, profiles, cfgs);
            part.rule = "every history of the bound x every crash point inside its last op (every fs-effect prefix, every byte of every write) -> directory image rebuilt from the trace -> real open(): must succeed and yield the state before or after the in-flight op (or a partial truncate/delete); every crash point of the recovery's own writes is applied on top and recovered again; then every continuation sequence (depth 1-2 over 7 ops) + restart must behave as on the model. distinct_nontrivial is not separately measured here (states = distinct recovered fingerprints)".into();
            part.require_outcomes(&["continuations", "recoveries_with_writes_(second_crash_enumerated)"]);
        }
        "C03" => {
            let mut seeds = vec![seed_empty(), seed_ab(), seed_two_files(), seed_gc_ready(), seed_empty_old()];
            seeds.extend(cursor_seeds(&[3], &[0, 8, 34]));
            seeds.extend(gc_spill_seeds().into_iter().take(4));
            let mut alpha = a_write();
            alpha.push(Op::Persist(false));
            alpha.push(Op::Persist(true));
            alpha.push(Op::app(QA, Pos::Auto, Sz::XL));
            let profiles = if TINY {
                vec![prof("seeds x (A_write + Persist + XL)", seeds, alpha, if q { 2 } else { 3 })]
            } else {
                vec![prof("seeds x (A_write + Persist + XL)", seeds, alpha, if q { 1 } else { 2 })]
            };
            let mut cfgs = vec![];
            for policy in [PolicyCfg::DoNothing, PolicyCfg::DelayNeverFlush, PolicyCfg::DelayExpiredFsync, PolicyCfg::AlwaysFlush, PolicyCfg::AlwaysFsync, PolicyCfg::DelayAltFlush] {
                for power_loss in [false, true] {
                    cfgs.push(CrashCfg {
                        property: "C03",
                        oracle: Oracle::C03,
                        policy,
                        hash_seed: 0,
                        power_loss,
                        second_crash: false,
                        cont_struct: 0,
                        cont_other: 0,
                        initial_open: false,
                    });
                }
            }
            run_crash(part, profiles, cfgs);
            part.rule = "6 policy configurations x 2 loss models x every history of the bound (explicit persist ops and a roll-over append in the alphabet) x every crash point inside the last op; process crash: image = what reached the OS; power loss: image = durable prefix of directory ops x per-file prefix of unsynced effects; oracle: recovered state is S_j (or a partial truncate/delete of S_j) for some j >= the last persisted point. distinct_nontrivial = distinct (persisted point, crashed op, policy, matched state)".into();
            part.assumptions.push("power-loss model: file data durable up to its last fdatasync, unsynced effects survive as any prefix per file; directory operations durable as a prefix after the last directory fsync".into());
        }
        "C12" => {
            // crash half; the damage half is added by the DAMAGE engine
            let batch = |q: u8, sizes: Vec<Sz>| Op::Append { q, pos: Pos::Auto, sizes };
            let alpha = vec![
                batch(QA, vec![Sz::S1, Sz::S0, Sz::S5]),
                batch(QA, vec![Sz::S3, Sz::L]),
                batch(QA, vec![Sz::L, Sz::S3, Sz::L, Sz::S1]),
                batch(QA, vec![Sz::S5, Sz::XL, Sz::S3]),
                batch(QB, vec![Sz::S3, Sz::S3]),
                Op::Trunc { q: QA, at: Tr::First },
                Op::Trunc { q: QA, at: Tr::Mid },
                Op::app(QA, Pos::Auto, Sz::S3),
                Op::Reopen,
            ];
            let mut seeds = vec![seed_ab()];
            seeds.extend(cursor_seeds(&[0, 3], &[0, 6, 7, 8, 19, 34, 40]));
            let profiles = vec![prof("cursor seeds x batch alphabet", seeds, alpha, if TINY { if q { 2 } else { 3 } } else if q { 1 } else { 2 })];
            let cfgs = vec![CrashCfg {
                property: "C12",
                oracle: Oracle::C12,
                policy: PolicyCfg::Default,
                hash_seed: 0,
                power_loss: false,
                second_crash: false,
                cont_struct: 0,
                cont_other: 0,
                initial_open: false,
            }];
            run_crash(part, profiles, cfgs);
            part.rule = "histories of multi-record batches (1 frame .. several blocks .. across two WAL files) at cursor seeds block_end-k / file_end-k, followed by partial truncations; every crash point inside the last op; oracle independent of the model: each batch's recovered positions are none, all, or a suffix whose missing head is covered by an issued truncation, bytes identical".into();
        }
        other => {
            part.machinery_errors
                .push(format!("unknown property {}", other));
        }
    }
}

pub fn replay(path: &str) -> i32 {
    eprintln!("replay not implemented yet: {}", path);
    2
}

//! DAMAGE engine: in-place faults (C08), frame-aimed faults (C09, C12), structural damage and
//! crafted entries (C10) on the WAL images left by explored histories.
use std::cell::Cell;
use std::collections::{BTreeMap, BTreeSet};

use mrecordlog::verif_hooks as vh;
use mrecordlog::verif_hooks::Event;
use serde_json::json;

use crate::crash::Image;
use crate::exec::*;
use crate::model::*;
use crate::ops::*;
use crate::report::*;
use crate::seq::*;

// ---------------------------------------------------------------------------------------------
// counting allocator (thread-local peak), for C10's allocation bound

pub struct CountingAlloc;

thread_local! {
    static ALLOC_CUR: Cell<usize> = const { Cell::new(0) };
    static ALLOC_PEAK: Cell<usize> = const { Cell::new(0) };
}

unsafe impl std::alloc::GlobalAlloc for CountingAlloc {
    unsafe fn alloc(&self, layout: std::alloc::Layout) -> *mut u8 {
        let p = std::alloc::System.alloc(layout);
        if !p.is_null() {
            let _ = ALLOC_CUR.try_with(|c| {
                let v = c.get() + layout.size();
                c.set(v);
                let _ = ALLOC_PEAK.try_with(|p| {
                    if v > p.get() {
                        p.set(v)
                    }
                });
            });
        }
        p
    }
    unsafe fn dealloc(&self, ptr: *mut u8, layout: std::alloc::Layout) {
        std::alloc::System.dealloc(ptr, layout);
        let _ = ALLOC_CUR.try_with(|c| c.set(c.get().saturating_sub(layout.size())));
    }
}

pub fn alloc_reset_peak() -> usize {
    let cur = ALLOC_CUR.with(|c| c.get());
    ALLOC_PEAK.with(|p| p.set(cur));
    cur
}
pub fn alloc_peak() -> usize {
    ALLOC_PEAK.with(|p| p.get())
}

// ---------------------------------------------------------------------------------------------

#[derive(Clone, Debug)]
pub struct FrameInfo {
    pub file: String,
    pub offset: usize,
    pub len: usize,
    pub op: usize,
}

pub struct DmgImage {
    pub image: Image,
    /// every (queue, position, payload) ever appended, all incarnations
    pub appended: BTreeSet<(String, u64, Vec<u8>)>,
    pub model: Model,
    pub frames: Vec<FrameInfo>,
    /// records appended by each op
    pub op_records: BTreeMap<usize, Vec<(String, u64, Vec<u8>)>>,
    /// ops that appended >= 2 records
    pub batch_ops: BTreeSet<usize>,
    pub truncs: Vec<(String, u64)>,
    pub cops: Vec<COp>,
    pub emb_frames: Vec<usize>,
}

pub fn build_image(env: &mut Env, leaf: &Leaf) -> Option<DmgImage> {
    env.scratch.reset();
    let dir = env.scratch.path.clone();
    let res = guarded(|| {
        let mut run = Run::start(&dir, PolicyCfg::Default, 0, true, default_names()).ok()?;
        let mut d = DmgImage {
            image: Image::new(),
            appended: BTreeSet::new(),
            model: Model::default(),
            frames: vec![],
            op_records: BTreeMap::new(),
            batch_ops: BTreeSet::new(),
            truncs: vec![],
            cops: vec![],
            emb_frames: vec![],
        };
        for (k, op) in leaf.seed.ops.iter().chain(leaf.ops.iter().copied()).enumerate() {
            let rec = run.step(op);
            if rec.got != rec.expected || matches!(rec.got, Outcome::Err(ErrKind::Io(_))) {
                return None;
            }
            for e in &rec.events {
                if let Event::BlockWrite { file_number, offset, len, .. } = e {
                    if *len >= 7 {
                        d.frames.push(FrameInfo { file: wal_name(*file_number), offset: *offset, len: *len, op: k });
                    }
                }
            }
            if let (COp::Append { q, payloads, .. }, Outcome::Appended(Some(last))) = (&rec.cop, &rec.got) {
                let first = last + 1 - payloads.len() as u64;
                let recs: Vec<(String, u64, Vec<u8>)> = payloads.iter().enumerate().map(|(i, p)| (q.clone(), first + i as u64, p.to_vec())).collect();
                for r in &recs {
                    d.appended.insert(r.clone());
                }
                if payloads.len() >= 2 {
                    d.batch_ops.insert(k);
                }
                d.op_records.insert(k, recs);
            }
            if let COp::Trunc { q, pos } = &rec.cop {
                d.truncs.push((q.clone(), *pos));
            }
            if matches!(op, Op::Append { sizes, .. } if sizes.contains(&Sz::Emb) || sizes.contains(&Sz::EmbTail)) {
                d.emb_frames.push(k);
            }
            d.cops.push(rec.cop);
        }
        d.model = run.model.clone();
        drop(run);
        d.image = read_image(&dir);
        let image = &d.image;
        d.frames.retain(|f| image.contains_key(&f.file));
        Some(d)
    });
    res.ok().flatten()
}

pub type Patch = Vec<(String, usize, Vec<u8>)>;

fn apply_patch(image: &Image, patch: &Patch) -> Option<Image> {
    let mut img = image.clone();
    let mut changed = false;
    for (file, off, bytes) in patch {
        let f = img.get_mut(file)?;
        if off + bytes.len() > f.len() {
            return None;
        }
        if f[*off..off + bytes.len()] != bytes[..] {
            changed = true;
        }
        f[*off..off + bytes.len()].copy_from_slice(bytes);
    }
    if changed {
        Some(img)
    } else {
        None
    }
}

pub enum Opened {
    Ok(Obs),
    Err(String),
    Panic(String),
}

/// Opens the (damaged) image with the real code under catch_unwind and the tick budget.
pub fn open_image(dir: &std::path::Path, image: &Image, budget: u64) -> (Opened, usize) {
    set_image(dir, image);
    reset_hooks(0, false);
    vh::set_tick_budget(budget);
    let base = alloc_reset_peak();
    let res = guarded(|| open_log(dir, PolicyCfg::Default).map(|log| {
        // every read accessor of the returned log
        let obs = observe(&log);
        for q in obs.keys() {
            let _ = log.last_record(q).map(|r| r.map(|r| r.payload.len()));
            let _ = log.range(q, 1..).map(|it| it.count());
        }
        let _ = log.summary();
        let _ = log.resource_usage();
        obs
    }));
    let peak = alloc_peak().saturating_sub(base);
    vh::set_tick_budget(BIG_TICKS);
    let r = match res {
        Ok(Ok(obs)) => Opened::Ok(obs),
        Ok(Err(e)) => Opened::Err(format!("{:?}", e)),
        Err(p) => Opened::Panic(p),
    };
    (r, peak)
}

const TICK_BUDGET: u64 = 100_000;

fn byte_values(orig: u8) -> Vec<u8> {
    let mut v: Vec<u8> = (0..8).map(|b| orig ^ (1 << b)).collect();
    for x in [0x00u8, 0xFF, 0x01, 0x02, 0x03, 0x04] {
        if x != orig && !v.contains(&x) {
            v.push(x);
        }
    }
    v
}

/// Byte positions to damage in a file.
fn fault_positions(d: &DmgImage, file: &str, len: usize) -> Vec<usize> {
    if TINY {
        return (0..len).collect();
    }
    let mut v: BTreeSet<usize> = BTreeSet::new();
    let mut end = 0;
    for f in d.frames.iter().filter(|f| f.file == file) {
        for o in f.offset..(f.offset + 15).min(f.offset + f.len) {
            v.insert(o);
        }
        for o in (f.offset + f.len).saturating_sub(8)..f.offset + f.len {
            v.insert(o);
        }
        let mut o = f.offset + 15;
        while o < f.offset + f.len {
            v.insert(o);
            o += 1021;
        }
        end = end.max(f.offset + f.len);
    }
    for o in end..(end + 16).min(len) {
        v.insert(o);
    }
    for b in 1..4 {
        for o in (b * BLOCK).saturating_sub(8)..(b * BLOCK + 8).min(len) {
            v.insert(o);
        }
    }
    v.into_iter().filter(|o| *o < len).collect()
}

fn case_json(leaf: &Leaf, fault: serde_json::Value) -> serde_json::Value {
    json!({"engine":"damage","seed_name":leaf.seed.name,"seed_ops":leaf.seed.ops,"ops":leaf.ops,"fault":fault})
}

fn emb_record() -> (String, u64, Vec<u8>) {
    ("e".to_string(), EMB_POSITION, vec![])
}

/// C08 oracle: every recovered record was appended; positions strictly increasing.
fn genuine(d: &DmgImage, obs: &Obs) -> Result<(), (String, u64, Vec<u8>, &'static str)> {
    for (q, qo) in obs {
        let mut prev: Option<u64> = None;
        for (p, b) in &qo.recs {
            if !d.appended.contains(&(q.clone(), *p, b.clone())) {
                return Err((q.clone(), *p, b.clone(), "not-appended"));
            }
            if let Some(pp) = prev {
                if *p <= pp {
                    return Err((q.clone(), *p, b.clone(), "positions-not-increasing"));
                }
            }
            prev = Some(*p);
        }
    }
    Ok(())
}

pub fn c08_leaf(env: &mut Env, leaf: &Leaf) {
    let Some(d) = build_image(env, leaf) else {
        env.stats.diverged += 1;
        return;
    };
    env.stats.traces += 1;
    let dir = env.scratch2.path.clone();
    let mut faults = inplace_faults(&d);
    for f in &d.frames {
        for (patch, descr) in frame_faults(&d, f) {
            if patch.len() >= 2 {
                // the multi-site alterations only (single bytes are in the in-place menu already)
                faults.push((patch, descr, false));
            }
        }
    }
    // D7 predicate: the fault touches nothing but the 2-byte length field of a frame written by an
    // append whose payload is a frame / entry image
    for (patch, _, on_emb) in faults.iter_mut() {
        *on_emb = patch.iter().all(|(file, off, bytes)| {
            d.frames.iter().any(|f| d.emb_frames.contains(&f.op) && f.file == *file && *off >= f.offset + 4 && off + bytes.len() <= f.offset + 6)
        });
    }
    // multi-frame entries of the image: (serialized length, payload length of the first frame)
    let mut multi: Vec<(usize, usize)> = vec![];
    {
        let mut by_op: BTreeMap<usize, Vec<&FrameInfo>> = BTreeMap::new();
        for f in &d.frames {
            by_op.entry(f.op).or_default().push(f);
        }
        for (op, fs) in by_op {
            if fs.len() >= 2 && d.op_records.contains_key(&op) && fs.iter().all(|f| d.image.get(&f.file).map(|b| b[f.offset + 6] != 1).unwrap_or(false)) {
                let total: usize = fs.iter().map(|f| f.len - 7).sum();
                multi.push((total, fs[0].len - 7));
            }
        }
        multi.sort();
        multi.dedup();
    }
    let nfaults = faults.len();
    let mut torn_reported = false;
    env.stats.sample(|| json!({"engine": "damage", "seed": leaf.seed.name, "ops": leaf.ops.iter().map(|o| o.short()).collect::<Vec<_>>(), "wal_files": d.image.len(), "frames": d.frames.len(), "faults_enumerated": nfaults, "first_fault": faults.first().map(|f| f.1.clone())}));
    for (patch, descr, on_emb_carrier) in faults {
        let Some(img) = apply_patch(&d.image, &patch) else { continue };
        env.stats.evaluations += 1;
        env.stats.transitions += 1;
        let (res, _) = open_image(&dir, &img, TICK_BUDGET);
        match res {
            Opened::Ok(obs) => {
                env.stats.outcome("open-ok");
                env.stats.state(&hash_of(&obs));
                env.stats.nontrivial(&(hash_of(&obs), descr["kind"].as_str().map(|s| s.to_string())));
                // A whole block zeroed can cut a multi-frame entry after its first frame: the log
                // "ends" there. Appending an entry exactly as long as what that entry still missed,
                // then restarting, must not glue the two into a record that was never appended.
                if descr["kind"] == "zero-range" && descr["len"].as_u64().map(|l| l as usize >= BLOCK).unwrap_or(false) && descr["offset"].as_u64().map(|o| o as usize % BLOCK == 0).unwrap_or(false) {
                    for (total, first) in &multi {
                        let Some(len) = total.checked_sub(first + 24) else { continue };
                        for q in obs.keys().filter(|q| q.len() == 1) {
                            env.stats.count("zeroed_block_then_append_then_restart", 1);
                            env.stats.evaluations += 1;
                            env.stats.transitions += 3;
                            let payload = crate::ops::payload(7000 + len as u32, len);
                            let r = guarded(|| -> Option<(Obs, u64)> {
                                set_image(&dir, &img);
                                reset_hooks(0, false);
                                let mut log = open_log(&dir, PolicyCfg::Default).ok()?;
                                let out = log.append_record(q, None, &payload[..]).ok()?;
                                drop(log);
                                let log = open_log(&dir, PolicyCfg::Default).ok()?;
                                Some((observe(&log), out.last_position.unwrap_or(0)))
                            });
                            if let Ok(Some((obs2, pos))) = r {
                                let mut d2_appended = d.appended.clone();
                                d2_appended.insert((q.clone(), pos, payload.to_vec()));
                                for (qq, qo) in &obs2 {
                                    for (p, b) in &qo.recs {
                                        if !d2_appended.contains(&(qq.clone(), *p, b.clone())) {
                                            env.stats.violation(Violation {
                                                property: "C08".into(),
                                                signature: "phantom-record-after-append-and-restart".into(),
                                                what: format!("after fault {}, a successful open, an append of {} bytes to {} and a restart: queue {} returns position {} with a {}-byte payload that was never appended", descr, len, q, qq, p, b.len()),
                                                case: case_json(leaf, descr.clone()),
                                            });
                                            return;
                                        }
                                    }
                                }
                            }
                        }
                    }
                }
                // A zeroed frame header ends the log there, with the frames that followed it still in
                // the file. The next append starts at that point; if it is cut short by a crash (only
                // its first k frames reach the file), the frames of the OLD entries lie right behind
                // it. Nothing may be glued together from the two.
                let at_frame_start = descr["kind"] == "zero-range"
                    && descr["len"].as_u64().map(|l| l >= 7).unwrap_or(false)
                    && d.frames.iter().any(|f| Some(f.file.as_str()) == descr["file"].as_str() && Some(f.offset as u64) == descr["offset"].as_u64());
                if at_frame_start && !torn_reported {
                    // (reported once per image; the enumeration of this image's faults goes on)
                    torn_reported = torn_append_after_damage(env, leaf, &d, &dir, &img, &obs, &multi, &descr);
                }
                if let Err((q, p, b, why)) = genuine(&d, &obs) {
                    let emb = on_emb_carrier && (q.clone(), p, b.clone()) == emb_record();
                    env.stats.violation(Violation {
                        property: "C08".into(),
                        signature: if emb { "length-fault-exposes-frame-shaped-payload".into() } else { format!("phantom-record-{}", why) },
                        what: format!("after fault {}: queue {} returns position {} with a {}-byte payload {} ({})", descr, q, p, b.len(), hex(&b[..b.len().min(12)]), why),
                        case: case_json(leaf, descr),
                    });
                }
            }
            Opened::Err(_) => env.stats.outcome("open-err"),
            Opened::Panic(_) => env.stats.outcome("open-panicked(not C08's question)"),
        }
    }
}

/// C10, third part: the in-place fault menu of C08 with the no-panic / no-hang oracle.
pub fn c10_inplace_leaf(env: &mut Env, leaf: &Leaf) {
    let Some(d) = build_image(env, leaf) else {
        env.stats.diverged += 1;
        return;
    };
    env.stats.traces += 1;
    let dir = env.scratch2.path.clone();
    for (patch, descr, _) in inplace_faults(&d) {
        let Some(img) = apply_patch(&d.image, &patch) else { continue };
        env.stats.nontrivial(&(hash_of(&img), 2));
        c10_eval(env, &dir, &img, || case_json(leaf, descr));
    }
}

fn inplace_faults(d: &DmgImage) -> Vec<(Patch, serde_json::Value, bool)> {
    let mut faults: Vec<(Patch, serde_json::Value, bool)> = vec![];
    // (a) byte faults
    for (file, bytes) in &d.image {
        for off in fault_positions(d, file, bytes.len()) {
            for v in byte_values(bytes[off]) {
                faults.push((vec![(file.clone(), off, vec![v])], json!({"kind":"byte","file":file,"offset":off,"value":v}), false));
            }
        }
        // (b) zero-fill ranges
        let lens: Vec<usize> = if TINY { vec![2, 4, 7, 8, 16, BLOCK, FILE] } else { vec![7, 64, BLOCK] };
        for l in lens {
            let starts: Vec<usize> = if TINY { (0..bytes.len().saturating_sub(l - 1)).collect() } else { fault_positions(d, file, bytes.len()).into_iter().filter(|o| o + l <= bytes.len()).collect() };
            for s in starts {
                faults.push((vec![(file.clone(), s, vec![0u8; l])], json!({"kind":"zero-range","file":file,"offset":s,"len":l}), false));
            }
        }
    }
    // (c) length-field retargeting
    for f in &d.frames {
        let values: Vec<usize> = if TINY {
            (0..=BLOCK).collect()
        } else {
            let rem = BLOCK - f.offset % BLOCK;
            let pl = f.len - 7;
            let mut v = vec![0, 1, 2, 23, 24, 25, pl.saturating_sub(1), pl + 1, pl / 2, rem.saturating_sub(8), rem - 7, rem - 6, rem - 1, rem, BLOCK - 1, BLOCK, 65535];
            v.sort();
            v.dedup();
            v.retain(|x| *x <= 65535);
            v
        };
        for val in values {
            let le = (val as u16).to_le_bytes().to_vec();
            faults.push((vec![(f.file.clone(), f.offset + 4, le)], json!({"kind":"length-field","file":f.file,"frame_offset":f.offset,"new_len":val,"frame_owner_op":f.op}), d.emb_frames.contains(&f.op)));
        }
    }
    faults
}

/// Frame-aimed alterations: every payload byte and CRC byte (+1, xor 0xFF, zero), whole payload
/// zeroed / set to 0xFF.
fn frame_faults(d: &DmgImage, f: &FrameInfo) -> Vec<(Patch, serde_json::Value)> {
    let mut v = vec![];
    let bytes = &d.image[&f.file];
    let mut positions: Vec<usize> = (f.offset..f.offset + 4).collect();
    let payload: Vec<usize> = (f.offset + 7..f.offset + f.len).collect();
    if TINY || payload.len() <= 64 {
        positions.extend(payload.iter());
    } else {
        positions.extend(payload.iter().take(16));
        positions.extend(payload.iter().rev().take(16));
        positions.extend(payload.iter().skip(16).step_by(1021));
    }
    for off in positions {
        if off >= bytes.len() {
            continue;
        }
        let o = bytes[off];
        for (name, val) in [("+1", o.wrapping_add(1)), ("xor-ff", o ^ 0xFF), ("zero", 0u8)] {
            if val != o {
                v.push((vec![(f.file.clone(), off, vec![val])], json!({"kind":"frame-byte","file":f.file,"frame_offset":f.offset,"frame_len":f.len,"byte_offset":off,"part": if off < f.offset + 4 {"crc"} else {"payload"},"alteration":name,"frame_owner_op":f.op})));
            }
        }
    }
    for (name, crc) in [("crc-zeroed", vec![0u8; 4]), ("crc-ff", vec![0xFFu8; 4]), ("crc-inverted", bytes[f.offset..f.offset + 4].iter().map(|b| !b).collect::<Vec<u8>>())] {
        v.push((vec![(f.file.clone(), f.offset, crc.clone())], json!({"kind":"frame-crc","file":f.file,"frame_offset":f.offset,"frame_len":f.len,"alteration":name,"frame_owner_op":f.op})));
        if f.len > 7 {
            v.push((vec![(f.file.clone(), f.offset, crc), (f.file.clone(), f.offset + 7, vec![0u8; f.len - 7])], json!({"kind":"frame-crc+payload","file":f.file,"frame_offset":f.offset,"frame_len":f.len,"alteration":format!("{}+payload-zeroed", name),"frame_owner_op":f.op})));
        }
    }
    if f.len > 7 {
        // checksum field overwritten together with one payload byte of the same frame
        let last = f.offset + f.len - 1;
        let first = f.offset + 7;
        for (cname, crc) in [("crc-zeroed", vec![0u8; 4]), ("crc-ff", vec![0xFFu8; 4])] {
            for (pname, off) in [("last-payload-byte+1", last), ("first-payload-byte+1", first)] {
                if off < bytes.len() {
                    v.push((vec![(f.file.clone(), f.offset, crc.clone()), (f.file.clone(), off, vec![bytes[off].wrapping_add(1)])], json!({"kind":"frame-crc+payload","file":f.file,"frame_offset":f.offset,"frame_len":f.len,"alteration":format!("{}+{}", cname, pname),"frame_owner_op":f.op})));
                }
            }
        }
    }
    if f.len > 7 {
        for (name, val) in [("payload-zeroed", 0u8), ("payload-ff", 0xFFu8)] {
            v.push((vec![(f.file.clone(), f.offset + 7, vec![val; f.len - 7])], json!({"kind":"frame-payload","file":f.file,"frame_offset":f.offset,"frame_len":f.len,"alteration":name,"frame_owner_op":f.op})));
        }
    }
    v
}

/// See the call site in `c08_leaf`. Returns true if a violation was recorded.
#[allow(clippy::too_many_arguments)]
fn torn_append_after_damage(env: &mut Env, leaf: &Leaf, d: &DmgImage, dir: &std::path::Path, img: &Image, obs: &Obs, multi: &[(usize, usize)], descr: &serde_json::Value) -> bool {
    for (total, _first) in multi {
        let Some(len) = total.checked_sub(24) else { continue };
        for q in obs.keys().filter(|q| q.len() == 1) {
            let payload = crate::ops::payload(7300 + len as u32, len);
            // the append in full, with its frames
            let r = guarded(|| -> Option<(Image, Image, Vec<(String, usize, usize)>, u64)> {
                set_image(dir, img);
                reset_hooks(0, false);
                let mut log = open_log(dir, PolicyCfg::Default).ok()?;
                let pre = read_image(dir);
                vh::trace_start();
                let out = log.append_record(q, None, &payload[..]).ok()?;
                let events = vh::trace_take();
                vh::trace_stop();
                drop(log);
                let full = read_image(dir);
                let frames: Vec<(String, usize, usize)> = events
                    .iter()
                    .filter_map(|e| match e {
                        Event::BlockWrite { file_number, offset, len, .. } if *len >= 7 => Some((wal_name(*file_number), *offset, *len)),
                        _ => None,
                    })
                    .collect();
                Some((pre, full, frames, out.last_position?))
            });
            let Ok(Some((pre, full, frames, pos))) = r else { continue };
            if frames.len() < 2 {
                continue;
            }
            let mut appended = d.appended.clone();
            appended.insert((q.clone(), pos, payload.to_vec()));
            // crash after the first k frames (k = 1 .. n-1): the rest of the new entry never reached the file
            for k in 1..frames.len() {
                let mut cut = full.clone();
                for (file, off, l) in &frames[k..] {
                    let (Some(dst), Some(src)) = (cut.get_mut(file), pre.get(file)) else { continue };
                    if src.len() >= off + l && dst.len() >= off + l {
                        dst[*off..off + l].copy_from_slice(&src[*off..off + l]);
                    }
                }
                // a file created by the append and holding none of its first k frames: as created (zeroes)
                env.stats.count("torn_append_after_zeroed_header", 1);
                env.stats.evaluations += 1;
                env.stats.transitions += 2;
                let (res, _) = open_image(dir, &cut, TICK_BUDGET);
                let Opened::Ok(obs2) = res else { continue };
                for (qq, qo) in &obs2 {
                    let mut prev: Option<u64> = None;
                    for (p, b) in &qo.recs {
                        let dup = prev.map(|x| *p <= x).unwrap_or(false);
                        prev = Some(*p);
                        if dup || !appended.contains(&(qq.clone(), *p, b.clone())) {
                            // D10 is identified by this history (zeroed frame header, open, append cut
                            // short after k of its frames, open): a record that was never appended and
                            // that the open BEFORE the torn append did not return. (One it did return is
                            // the main oracle's business, and a position going backwards is not D10.)
                            let stale_tail = !dup && !obs.get(qq).map(|o| o.recs.iter().any(|r| r.0 == *p && r.1 == *b)).unwrap_or(false);
                            env.stats.violation(Violation {
                                property: "C08".into(),
                                signature: if stale_tail { "torn-append-completed-by-stale-frames".into() } else { "phantom-record-after-torn-append".into() },
                                what: format!("after fault {} and a successful open, an append of {} bytes to {} (position {}) is cut short by a crash after {} of its {} frames; the next open returns queue {} position {} with a {}-byte payload {} that was never appended{}", descr, len, q, pos, k, frames.len(), qq, p, b.len(), hex(&b[..b.len().min(12)]), if stale_tail { " (the new entry's first frames completed by frames of an old entry that lay behind the zeroed header)" } else { "" }),
                                case: case_json(leaf, descr.clone()),
                            });
                            return true;
                        }
                    }
                }
            }
        }
    }
    false
}

/// The reduced per-frame fault menu used for PAIRS of faults in two different frames: each other
/// frame type, checksum field zeroed, first payload byte inverted, whole payload zeroed, and (when
/// the image holds no frame-shaped payload: that combination is D7's) the length field set to 0 /
/// to the rest of the block.
fn reduced_frame_faults(d: &DmgImage, f: &FrameInfo) -> Vec<(Patch, String)> {
    let bytes = &d.image[&f.file];
    let mut v: Vec<(Patch, String)> = vec![];
    let t = bytes[f.offset + 6];
    // each other valid frame type, and two invalid ones (the whole block is then dropped)
    for nt in [1u8, 2, 3, 4, 0, 0xFF] {
        if nt != t {
            v.push((vec![(f.file.clone(), f.offset + 6, vec![nt])], format!("type {}->{} @{}+{}", t, nt, f.file, f.offset)));
        }
    }
    v.push((vec![(f.file.clone(), f.offset, vec![0u8; 4])], format!("crc zeroed @{}+{}", f.file, f.offset)));
    if f.len > 7 {
        v.push((vec![(f.file.clone(), f.offset + 7, vec![!bytes[f.offset + 7]])], format!("first payload byte inverted @{}+{}", f.file, f.offset)));
        v.push((vec![(f.file.clone(), f.offset + 7, vec![0u8; f.len - 7])], format!("payload zeroed @{}+{}", f.file, f.offset)));
    }
    if d.emb_frames.is_empty() {
        v.push((vec![(f.file.clone(), f.offset + 4, vec![0u8, 0u8])], format!("length 0 @{}+{}", f.file, f.offset)));
        let rest = (BLOCK - f.offset % BLOCK - 7) as u16;
        v.push((vec![(f.file.clone(), f.offset + 4, rest.to_le_bytes().to_vec())], format!("length {} (rest of block) @{}+{}", rest, f.file, f.offset)));
    }
    v
}

/// C08, second part: two faults in two different frames (`reach`: how many following frames are
/// paired with each frame).
pub fn c08_pairs_leaf(env: &mut Env, leaf: &Leaf, reach: usize) {
    let Some(d) = build_image(env, leaf) else {
        env.stats.diverged += 1;
        return;
    };
    env.stats.traces += 1;
    let dir = env.scratch2.path.clone();
    let menus: Vec<Vec<(Patch, String)>> = d.frames.iter().map(|f| reduced_frame_faults(&d, f)).collect();
    for i in 0..d.frames.len() {
        for j in i + 1..d.frames.len().min(i + 1 + reach) {
            for (pa, da) in &menus[i] {
                for (pb, db) in &menus[j] {
                    let mut patch = pa.clone();
                    patch.extend(pb.iter().cloned());
                    let Some(img) = apply_patch(&d.image, &patch) else { continue };
                    env.stats.evaluations += 1;
                    env.stats.transitions += 1;
                    env.stats.count("fault_pairs", 1);
                    let (res, _) = open_image(&dir, &img, TICK_BUDGET);
                    if let Opened::Ok(obs) = res {
                        env.stats.outcome("open-ok");
                        env.stats.nontrivial(&(hash_of(&obs), i, j));
                        if let Err((q, p, b, why)) = genuine(&d, &obs) {
                            let descr = json!({"kind": "fault-pair", "first": da, "second": db, "patch": patch.iter().map(|(f, o, b)| json!({"file": f, "offset": o, "bytes": b})).collect::<Vec<_>>()});
                            env.stats.violation(Violation {
                                property: "C08".into(),
                                signature: format!("phantom-record-{}", why),
                                what: format!("after the two faults [{}] and [{}]: queue {} returns position {} with a {}-byte payload {} ({})", da, db, q, p, b.len(), hex(&b[..b.len().min(12)]), why),
                                case: case_json(leaf, descr),
                            });
                            return;
                        }
                    } else {
                        env.stats.outcome("open-err-or-other");
                    }
                }
            }
        }
    }
}

pub fn c09_leaf(env: &mut Env, leaf: &Leaf) {
    let Some(d) = build_image(env, leaf) else {
        env.stats.diverged += 1;
        return;
    };
    env.stats.traces += 1;
    let dir = env.scratch2.path.clone();
    env.stats.sample(|| json!({"engine": "damage-frame", "seed": leaf.seed.name, "ops": leaf.ops.iter().map(|o| o.short()).collect::<Vec<_>>(), "wal_files": d.image.len(), "frames": d.frames.iter().map(|f| format!("{}@{}+{} by op {}", f.file, f.offset, f.len, f.op)).collect::<Vec<_>>()}));
    let mut cont_done: BTreeSet<(String, usize, String)> = BTreeSet::new();
    for f in &d.frames {
        let lost: Vec<(String, u64, Vec<u8>)> = d.op_records.get(&f.op).cloned().unwrap_or_default();
        for (patch, descr) in frame_faults(&d, f) {
            let Some(img) = apply_patch(&d.image, &patch) else { continue };
            env.stats.evaluations += 1;
            env.stats.transitions += 1;
            let (res, _) = open_image(&dir, &img, TICK_BUDGET);
            env.stats.nontrivial(&(f.file.clone(), f.offset, descr["alteration"].as_str().map(|s| s.to_string()), descr["byte_offset"].as_u64(), hash_of(&d.cops.len()), leaf.seed_idx, hash_of(&model_obs(&d.model))));
            let obs = match res {
                Opened::Ok(obs) => obs,
                Opened::Err(e) => {
                    env.stats.violation(Violation { property: "C09".into(), signature: "open-failed-on-frame-damage".into(), what: format!("damage {} (entry written by op {} {}): open returned {}", descr, f.op, d.cops[f.op].to_json(), e), case: case_json(leaf, descr) });
                    continue;
                }
                Opened::Panic(p) => {
                    env.stats.violation(Violation { property: "C09".into(), signature: "open-panicked-on-frame-damage".into(), what: format!("damage {}: {}", descr, p), case: case_json(leaf, descr) });
                    continue;
                }
            };
            env.stats.state(&hash_of(&obs));
            env.stats.outcome(if obs == model_obs(&d.model) { "recovered-everything" } else { "recovered-with-loss-or-extras" });
            // every retained record not appended by the damaged entry must be there, in order
            let mut bad: Option<String> = None;
            for (q, mq) in &d.model.queues {
                let want: Vec<&(u64, Payload)> = mq.recs.iter().filter(|r| !lost.iter().any(|l| l.0 == *q && l.1 == r.0 && l.2[..] == r.1[..])).collect();
                if want.is_empty() {
                    continue;
                }
                let Some(rq) = obs.get(q) else {
                    bad = Some(format!("queue {} (retaining positions {:?}) is gone", q, want.iter().map(|r| r.0).collect::<Vec<_>>()));
                    break;
                };
                let mut it = rq.recs.iter();
                for w in &want {
                    if !it.any(|r| r.0 == w.0 && r.1[..] == w.1[..]) {
                        bad = Some(format!("queue {}: retained record at position {} ({} bytes), whose append was not hit, is not recovered (recovered positions {:?})", q, w.0, w.1.len(), rq.recs.iter().map(|r| r.0).collect::<Vec<_>>()));
                        break;
                    }
                }
                if bad.is_some() {
                    break;
                }
            }
            if bad.is_none() {
                if let Err((q, p, b, why)) = genuine(&d, &obs) {
                    bad = Some(format!("queue {} returns position {} ({} bytes) that was never appended ({})", q, p, b.len(), why));
                }
            }
            if let Some(what) = bad {
                env.stats.violation(Violation { property: "C09".into(), signature: "loss-beyond-damaged-entry".into(), what: format!("damage {} hits the entry written by op {} {}: {}", descr, f.op, d.cops[f.op].to_json(), what), case: case_json(leaf, descr) });
                continue;
            }
            // The damaged frame stays in the file: appends made after this recovery were not hit
            // either, and must be there - together with everything recovered now - after the
            // next restart. Once per (frame, kind of alteration).
            let kind = format!("{}/{}", descr["kind"].as_str().unwrap_or(""), descr["part"].as_str().unwrap_or(""));
            if !cont_done.insert((f.file.clone(), f.offset, kind)) {
                continue;
            }
            env.stats.count("damage_then_appends_then_restart", 1);
            env.stats.evaluations += 1;
            env.stats.transitions += 3;
            let queues: Vec<String> = obs.keys().cloned().collect();
            let r = guarded(|| -> Option<(Obs, Vec<(String, u64, Vec<u8>)>)> {
                set_image(&dir, &img);
                reset_hooks(0, false);
                let mut log = open_log(&dir, PolicyCfg::Default).ok()?;
                let mut added = vec![];
                for (k, q) in queues.iter().enumerate() {
                    let payload = crate::ops::payload(8000 + k as u32, 3 + k);
                    let out = log.append_record(q, None, &payload[..]).ok()?;
                    added.push((q.clone(), out.last_position?, payload.to_vec()));
                }
                drop(log);
                let log = open_log(&dir, PolicyCfg::Default).ok()?;
                Some((observe(&log), added))
            });
            match r {
                Ok(Some((obs2, added))) => {
                    let mut want = obs.clone();
                    for (q, p, b) in &added {
                        let e = want.get_mut(q).unwrap();
                        e.recs.push((*p, b.clone()));
                        e.last_pos = Some(*p);
                    }
                    if obs2 != want {
                        env.stats.violation(Violation { property: "C09".into(), signature: "loss-after-appends-and-restart".into(), what: format!("damage {}: open succeeded and returned {}; after one append per queue and a restart the log returns {} instead of {}", descr, obs_summary(&obs), obs_summary(&obs2), obs_summary(&want)), case: case_json(leaf, descr) });
                    }
                }
                Ok(None) => {
                    env.stats.violation(Violation { property: "C09".into(), signature: "unusable-after-frame-damage".into(), what: format!("damage {}: open succeeded, but an append or the following restart failed", descr), case: case_json(leaf, descr) });
                }
                Err(p) => {
                    env.stats.violation(Violation { property: "C09".into(), signature: "panic-after-frame-damage".into(), what: format!("damage {}: {}", descr, p), case: case_json(leaf, descr) });
                }
            }
        }
    }
}

/// C12, damage half, second part: ANY in-place fault of the menu (not only on the batch's own
/// frames) on images that contain batches - e.g. damage that hides a delete + re-create, so
/// that a batch of the new incarnation is replayed onto the old one.
pub fn c12_anyfault_leaf(env: &mut Env, leaf: &Leaf) {
    let Some(d) = build_image(env, leaf) else {
        env.stats.diverged += 1;
        return;
    };
    if d.batch_ops.is_empty() {
        return;
    }
    env.stats.traces += 1;
    let dir = env.scratch2.path.clone();
    for (patch, descr, _) in inplace_faults(&d) {
        let Some(img) = apply_patch(&d.image, &patch) else { continue };
        env.stats.evaluations += 1;
        env.stats.transitions += 1;
        let (res, _) = open_image(&dir, &img, TICK_BUDGET);
        let Opened::Ok(obs) = res else {
            env.stats.outcome("open-not-ok(not C12's question)");
            continue;
        };
        for op in &d.batch_ops {
            let batch = &d.op_records[op];
            let q = &batch[0].0;
            let present: Vec<bool> = batch.iter().map(|(_, p, b)| obs.get(q).map(|rq| rq.recs.iter().any(|x| x.0 == *p && x.1 == *b)).unwrap_or(false)).collect();
            let n = present.iter().filter(|x| **x).count();
            env.stats.outcome(if n == 0 { "batch-absent" } else if n == batch.len() { "batch-whole" } else { "batch-partial" });
            if n == 0 || n == batch.len() {
                continue;
            }
            let first_present = present.iter().position(|x| *x).unwrap();
            let is_suffix = present[first_present..].iter().all(|x| *x);
            let last_dropped = batch[first_present.max(1) - 1].1;
            let covered = first_present > 0 && d.truncs.iter().any(|(tq, tp)| tq == q && *tp >= last_dropped);
            if !is_suffix || !covered {
                env.stats.violation(Violation {
                    property: "C12".into(),
                    signature: "batch-torn-by-damage".into(),
                    what: format!("damage {}: batch at positions {:?} of queue {} (written by op {}) recovered partially: present = {:?}", descr, batch.iter().map(|r| r.1).collect::<Vec<_>>(), q, op, present),
                    case: case_json(leaf, descr.clone()),
                });
                return;
            }
        }
    }
}

/// C12, damage half: frames of batch appends.
pub fn c12_damage_leaf(env: &mut Env, leaf: &Leaf) {
    c12_damage_leaf_with(env, leaf, 0);
}

/// `reach` > 0: every fault on a frame of the batch is combined with a second damaged place - a
/// checksum failure in one of the `reach` frames written before it by another call (reduced menu on
/// the batch frame: header fields, checksum field, first payload byte, whole payload).
pub fn c12_damage_leaf_with(env: &mut Env, leaf: &Leaf, reach: usize) {
    let Some(d) = build_image(env, leaf) else {
        env.stats.diverged += 1;
        return;
    };
    env.stats.traces += 1;
    let dir = env.scratch2.path.clone();
    for (fi, f) in d.frames.iter().enumerate().filter(|(_, f)| d.batch_ops.contains(&f.op)) {
        let batch = &d.op_records[&f.op];
        // second damaged place (pairs only)
        let mut companions: Vec<Option<(Patch, String)>> = vec![];
        if reach == 0 {
            companions.push(None);
        } else {
            for g in d.frames[..fi].iter().rev().filter(|g| g.op != f.op).take(reach) {
                let bytes = &d.image[&g.file];
                let off = if g.len > 7 { g.offset + 7 } else { g.offset };
                companions.push(Some((vec![(g.file.clone(), off, vec![!bytes[off]])], format!("byte {} of the frame at {}+{} (written by op {}) inverted", off - g.offset, g.file, g.offset, g.op))));
            }
        }
        let mut faults = if reach == 0 { frame_faults(&d, f) } else { reduced_frame_faults(&d, f).into_iter().map(|(p, s)| (p, json!({"kind": "reduced", "what": s}))).collect() };
        // header damage too: "every single-frame damage of the written batch"
        for ty in [0u8, 1, 2, 3, 4, 5, 0xFF] {
            faults.push((vec![(f.file.clone(), f.offset + 6, vec![ty])], json!({"kind":"frame-type","file":f.file,"frame_offset":f.offset,"new_type":ty,"frame_owner_op":f.op})));
        }
        for len in [0usize, (f.len - 7).saturating_sub(1), f.len - 7 + 1, 0xFFFF] {
            faults.push((vec![(f.file.clone(), f.offset + 4, (len as u16).to_le_bytes().to_vec())], json!({"kind":"frame-len","file":f.file,"frame_offset":f.offset,"new_len":len,"frame_owner_op":f.op})));
        }
        for (patch0, descr0) in faults {
          for comp in &companions {
            let (patch, descr) = match comp {
                None => (patch0.clone(), descr0.clone()),
                Some((p2, s2)) => {
                    let mut p = p2.clone();
                    p.extend(patch0.iter().cloned());
                    env.stats.count("fault_pairs", 1);
                    (p, json!({"kind": "fault-pair", "first": s2, "second": descr0}))
                }
            };
            let Some(img) = apply_patch(&d.image, &patch) else { continue };
            env.stats.evaluations += 1;
            env.stats.transitions += 1;
            let (res, _) = open_image(&dir, &img, TICK_BUDGET);
            let Opened::Ok(obs) = res else {
                env.stats.outcome("open-not-ok(not C12's question)");
                continue;
            };
            env.stats.nontrivial(&(f.file.clone(), f.offset, descr.to_string(), leaf.seed_idx, d.cops.len()));
            let q = &batch[0].0;
            let present: Vec<bool> = batch.iter().map(|(_, p, b)| obs.get(q).map(|rq| rq.recs.iter().any(|x| x.0 == *p && x.1 == *b)).unwrap_or(false)).collect();
            let n = present.iter().filter(|x| **x).count();
            env.stats.outcome(if n == 0 { "batch-absent" } else if n == batch.len() { "batch-whole" } else { "batch-partial" });
            if n == 0 || n == batch.len() {
                continue;
            }
            let first_present = present.iter().position(|x| *x).unwrap();
            let is_suffix = present[first_present..].iter().all(|x| *x);
            let last_dropped = batch[first_present.max(1) - 1].1;
            let covered = first_present > 0 && d.truncs.iter().any(|(tq, tp)| tq == q && *tp >= last_dropped);
            if !is_suffix || !covered {
                env.stats.violation(Violation {
                    property: "C12".into(),
                    signature: "batch-torn-by-damage".into(),
                    what: format!("damage {}: batch at positions {:?} of queue {} recovered partially: present = {:?}", descr, batch.iter().map(|r| r.1).collect::<Vec<_>>(), q, present),
                    case: case_json(leaf, descr),
                });
            }
          }
        }
    }
}

// ---------------------------------------------------------------------------------------------
// C10: structural damage and crafted entries

#[derive(Clone, Debug, serde::Serialize, serde::Deserialize)]
pub enum SOp {
    ZeroBlock(usize, usize),
    SwapBlocks(usize, usize, usize, usize),
    CopyBlock(usize, usize, usize, usize),
    TruncFile(usize, usize),
    RemoveFile(usize),
    DupFileNext(usize),
    DupFileMax(usize),
    SwapFiles(usize, usize),
    Stray(usize),
    GarbageBlock(usize, usize, u8),
}

fn stray_files() -> Vec<(&'static str, Vec<u8>)> {
    vec![
        ("notes.txt", b"hello".to_vec()),
        ("wal-0000000000000000001", vec![1u8; 10]),
        ("wal-99999999999999999999", vec![0u8; FILE]),
        ("wal-00000000000000000007", vec![]),
        ("wal-0000000000000000000x", vec![7u8; BLOCK]),
        // 24 bytes (the length of a WAL file name) of multi-byte UTF-8: no char boundary at byte 4
        ("\u{65e5}\u{672c}\u{8a9e}\u{306e}\u{30d5}\u{30a1}\u{30a4}\u{30eb}", vec![7u8; 10]),
        ("wal\u{e9}0000000000000000001", vec![0u8; FILE]),
        ("wal-000000000000000000\u{0663}", vec![1u8; BLOCK]),
    ]
}

fn sop_menu(image: &Image) -> Vec<SOp> {
    let n = image.len();
    let nb = FILE / BLOCK;
    let mut v = vec![];
    for f in 0..n {
        for b in 0..nb {
            v.push(SOp::ZeroBlock(f, b));
            v.push(SOp::GarbageBlock(f, b, 0xFF));
            v.push(SOp::GarbageBlock(f, b, 0x01));
            v.push(SOp::GarbageBlock(f, b, 0xA7));
            v.push(SOp::GarbageBlock(f, b, 0xB1));
            v.push(SOp::GarbageBlock(f, b, 0xB2));
        }
    }
    let blocks: Vec<(usize, usize)> = (0..n).flat_map(|f| (0..nb).map(move |b| (f, b))).collect();
    for (i, a) in blocks.iter().enumerate() {
        for (j, b) in blocks.iter().enumerate() {
            if i < j {
                v.push(SOp::SwapBlocks(a.0, a.1, b.0, b.1));
            }
            if i != j {
                v.push(SOp::CopyBlock(a.0, a.1, b.0, b.1));
            }
        }
    }
    for f in 0..n {
        for l in [0, 1, BLOCK - 1, BLOCK, BLOCK + 1, FILE - 1] {
            v.push(SOp::TruncFile(f, l));
        }
        v.push(SOp::RemoveFile(f));
        v.push(SOp::DupFileNext(f));
        v.push(SOp::DupFileMax(f));
        for g in f + 1..n {
            v.push(SOp::SwapFiles(f, g));
        }
    }
    for s in 0..stray_files().len() {
        v.push(SOp::Stray(s));
    }
    v
}

pub fn apply_sop(img: &mut Image, op: &SOp) {
    let names: Vec<String> = img.keys().filter(|k| wal_number(k).is_some()).cloned().collect();
    let blk = |img: &Image, f: usize, b: usize| -> Option<Vec<u8>> {
        let name = names.get(f)?;
        let bytes = img.get(name)?;
        if (b + 1) * BLOCK <= bytes.len() {
            Some(bytes[b * BLOCK..(b + 1) * BLOCK].to_vec())
        } else {
            None
        }
    };
    let put = |img: &mut Image, f: usize, b: usize, data: &[u8]| {
        if let Some(name) = names.get(f) {
            if let Some(bytes) = img.get_mut(name) {
                if (b + 1) * BLOCK <= bytes.len() {
                    bytes[b * BLOCK..(b + 1) * BLOCK].copy_from_slice(data);
                }
            }
        }
    };
    match op {
        SOp::ZeroBlock(f, b) => put(img, *f, *b, &vec![0u8; BLOCK]),
        SOp::GarbageBlock(f, b, seed) => {
            let data: Vec<u8> = if *seed == 0xB1 || *seed == 0xB2 {
                // fixed pseudo-random content (xorshift), two different streams
                let mut x: u64 = 0x9E3779B97F4A7C15 ^ (*seed as u64) << 17 ^ (*b as u64) << 7 ^ *f as u64;
                (0..BLOCK)
                    .map(|_| {
                        x ^= x << 13;
                        x ^= x >> 7;
                        x ^= x << 17;
                        (x >> 24) as u8
                    })
                    .collect()
            } else {
                (0..BLOCK).map(|i| if *seed == 0xA7 { ((i * 31 + 7) % 256) as u8 } else { *seed }).collect()
            };
            put(img, *f, *b, &data)
        }
        SOp::SwapBlocks(f1, b1, f2, b2) => {
            if let (Some(x), Some(y)) = (blk(img, *f1, *b1), blk(img, *f2, *b2)) {
                put(img, *f1, *b1, &y);
                put(img, *f2, *b2, &x);
            }
        }
        SOp::CopyBlock(f1, b1, f2, b2) => {
            if let Some(x) = blk(img, *f1, *b1) {
                put(img, *f2, *b2, &x);
            }
        }
        SOp::TruncFile(f, l) => {
            if let Some(name) = names.get(*f) {
                if let Some(bytes) = img.get_mut(name) {
                    bytes.truncate(*l);
                }
            }
        }
        SOp::RemoveFile(f) => {
            if let Some(name) = names.get(*f) {
                img.remove(name);
            }
        }
        SOp::DupFileNext(f) => {
            if let Some(name) = names.get(*f) {
                let max = names.iter().filter_map(|n| wal_number(n)).max().unwrap_or(0);
                if let Some(next) = max.checked_add(1) {
                    let data = img[name].clone();
                    img.insert(wal_name(next), data);
                }
            }
        }
        SOp::DupFileMax(f) => {
            if let Some(name) = names.get(*f) {
                let data = img[name].clone();
                img.insert(wal_name(u64::MAX), data);
            }
        }
        SOp::SwapFiles(f, g) => {
            if let (Some(a), Some(b)) = (names.get(*f), names.get(*g)) {
                let x = img[a].clone();
                let y = img[b].clone();
                img.insert(a.clone(), y);
                img.insert(b.clone(), x);
            }
        }
        SOp::Stray(s) => {
            let (n, data) = &stray_files()[*s];
            img.insert(n.to_string(), data.clone());
        }
    }
}

pub fn c10_eval(env: &mut Env, dir: &std::path::Path, img: &Image, case: impl FnOnce() -> serde_json::Value) {
    env.stats.evaluations += 1;
    env.stats.transitions += 1;
    let total: usize = img.values().map(|b| b.len()).sum();
    let (res, peak) = open_image(dir, img, TICK_BUDGET);
    let bound = 8 * total + (1 << 20) + 2 * 10_000 + 4 * BLOCK;
    env.stats.max("max_peak_allocation_during_open", peak as u64);
    let verdict = match res {
        Opened::Ok(obs) => {
            env.stats.outcome("open-ok");
            env.stats.state(&hash_of(&obs));
            None
        }
        Opened::Err(e) => {
            env.stats.outcome(if e.contains("Corruption") { "open-err-corruption" } else { "open-err-io" });
            None
        }
        Opened::Panic(p) if p.contains("livelock") => Some(("open-hangs".to_string(), p)),
        Opened::Panic(p) => {
            // signature: kind of panic + source location inside the crate
            let loc = p.rsplit(" at ").next().unwrap_or("").replace("/repo/", "");
            let kind = if p.contains("overflow") { "arithmetic-overflow" } else { "panic" };
            Some((format!("open-panics:{}@{}", kind, loc), p))
        }
    };
    let verdict = verdict.map(|(s, w)| (s.to_string(), w)).or_else(|| if peak > bound { Some(("open-allocates-without-bound".to_string(), format!("peak allocation {} bytes for a directory of {} bytes", peak, total))) } else { None });
    if let Some((sig, what)) = verdict {
        env.stats.violation(Violation { property: "C10".into(), signature: sig, what, case: case() });
    }
}

pub fn c10_structural_leaf(env: &mut Env, leaf: &Leaf, k: usize) {
    let Some(d) = build_image(env, leaf) else {
        env.stats.diverged += 1;
        return;
    };
    env.stats.traces += 1;
    let dir = env.scratch2.path.clone();
    let menu = sop_menu(&d.image);
    // all sequences of length 1..=k
    let mut idx: Vec<usize> = vec![0];
    loop {
        let ops: Vec<&SOp> = idx.iter().map(|i| &menu[*i]).collect();
        let mut img = d.image.clone();
        for op in &ops {
            apply_sop(&mut img, op);
        }
        env.stats.nontrivial(&(hash_of(&img), 0));
        c10_eval(env, &dir, &img, || json!({"engine":"damage-structural","seed_name":leaf.seed.name,"seed_ops":leaf.seed.ops,"ops":leaf.ops,"damage_ops":ops}));
        // next sequence
        let mut pos = idx.len();
        loop {
            if pos == 0 {
                if idx.len() >= k {
                    return;
                }
                idx = vec![0; idx.len() + 1];
                break;
            }
            pos -= 1;
            idx[pos] += 1;
            if idx[pos] < menu.len() {
                break;
            }
            idx[pos] = 0;
        }
    }
}

// ---- crafted CRC-valid entries

pub fn crc_frame(frame_type: u8, payload: &[u8]) -> Vec<u8> {
    let mut h = crc32fast::Hasher::default();
    h.update(&[frame_type]);
    h.update(payload);
    let crc = h.finalize();
    let mut v = Vec::with_capacity(7 + payload.len());
    v.extend_from_slice(&crc.to_le_bytes());
    v.extend_from_slice(&(payload.len() as u16).to_le_bytes());
    v.push(frame_type);
    v.extend_from_slice(payload);
    v
}

pub const EMB_POSITION: u64 = 40;

/// The byte image of a valid Full frame holding AppendRecords{queue "e", position 40, one empty
/// record at 40}: a payload a length fault could land on.
pub fn embedded_frame_payload() -> Vec<u8> {
    crc_frame(1, &embedded_entry())
}

/// AppendRecords{queue "e" (never created by any alphabet), position 40, one empty record}.
fn embedded_entry() -> Vec<u8> {
    let mut e = vec![4u8];
    e.extend_from_slice(&EMB_POSITION.to_le_bytes());
    e.extend_from_slice(&1u16.to_le_bytes());
    e.push(b'e');
    e.extend_from_slice(&EMB_POSITION.to_le_bytes());
    e.extend_from_slice(&0u32.to_le_bytes());
    e
}

/// A record payload which, appended to a 1-byte-named queue at a block start, fills the first
/// frame and leaves exactly the image of a serialized entry in the second (Last) frame.
pub fn embedded_tail_payload() -> Vec<u8> {
    let first_frame_record_bytes = BLOCK - 7 - (11 + 1 + 12);
    let mut v: Vec<u8> = (0..first_frame_record_bytes).map(|i| (i % 200 + 17) as u8).collect();
    v.extend_from_slice(&embedded_entry());
    v
}

pub fn crafted_entries() -> Vec<(String, Vec<u8>)> {
    let mut v = vec![];
    let positions: [u64; 5] = [0, 1, 5, 1 << 62, u64::MAX];
    for ty in 0u8..=5 {
        for pos in positions {
            for (qname, qbytes) in [("q-empty", &b""[..]), ("q-a", &b"a"[..]), ("q-nonutf8", &[0xff, 0xfe][..])] {
                for qlen_mode in ["exact", "plus1", "max"] {
                    let qlen: u16 = match qlen_mode {
                        "exact" => qbytes.len() as u16,
                        "plus1" => qbytes.len() as u16 + 1,
                        _ => 65535,
                    };
                    let bodies: Vec<(&str, Vec<u8>)> = if ty == 4 {
                        let mut b = vec![("no-records", vec![])];
                        for rpos in [0u64, 5, u64::MAX] {
                            for (lname, rlen, actual) in [("len0", 0u32, 0usize), ("exact", 3, 3), ("plus1", 4, 3), ("huge", u32::MAX, 3), ("short-hdr", 0, usize::MAX)] {
                                let mut r = vec![];
                                r.extend_from_slice(&rpos.to_le_bytes());
                                if actual == usize::MAX {
                                    r.truncate(5);
                                } else {
                                    r.extend_from_slice(&rlen.to_le_bytes());
                                    r.extend_from_slice(&vec![0x61u8; actual]);
                                }
                                b.push((lname, r));
                            }
                        }
                        b
                    } else {
                        vec![("none", vec![])]
                    };
                    for (bname, body) in bodies {
                        let mut e = vec![ty];
                        e.extend_from_slice(&pos.to_le_bytes());
                        e.extend_from_slice(&qlen.to_le_bytes());
                        e.extend_from_slice(qbytes);
                        e.extend_from_slice(&body);
                        if e.len() + 7 <= BLOCK {
                            v.push((format!("type{} pos{} {} qlen-{} body-{}", ty, pos, qname, qlen_mode, bname), e));
                        }
                    }
                }
            }
        }
    }
    v
}

pub fn c10_crafted(part: &mut Part) {
    let entries = crafted_entries();
    let quick = part.tier != "thorough";
    let n = entries.len();
    // all sequences of <= 2 (quick) / <= 3 over a reduced set (thorough) entries, packed as Full frames
    let reduced: Vec<usize> = (0..n).filter(|i| i % 7 == 0 || entries[*i].0.contains("18446744073709551615") || entries[*i].0.contains("huge")).collect();
    let next = std::sync::atomic::AtomicUsize::new(0);
    let merged = std::sync::Mutex::new(Stats::default());
    std::thread::scope(|scope| {
        for _ in 0..num_threads() {
            scope.spawn(|| {
                let mut env = Env::new();
                let dir = env.scratch2.path.clone();
                loop {
                    let i = next.fetch_add(1, std::sync::atomic::Ordering::SeqCst);
                    if i >= n {
                        break;
                    }
                    crate::report::watchdog_leaf(|| json!({"engine": "damage-crafted", "first_entry": entries[i].0}).to_string());
                    let mut seqs: Vec<Vec<usize>> = vec![vec![i]];
                    if TINY || !quick {
                        for j in 0..n {
                            seqs.push(vec![i, j]);
                        }
                    } else if reduced.contains(&i) {
                        // real geometry, quick tier: pairs over the reduced set only (every image
                        // is a 128 KiB file)
                        for j in &reduced {
                            seqs.push(vec![i, *j]);
                        }
                    }
                    if !quick && reduced.contains(&i) {
                        for j in &reduced {
                            for k in &reduced {
                                seqs.push(vec![i, *j, *k]);
                            }
                        }
                    }
                    for s in seqs {
                        // pack the frames one after another, moving to the next block when needed
                        let mut file = vec![0u8; FILE];
                        let mut cur = 0usize;
                        let mut ok = true;
                        for e in &s {
                            let fr = crc_frame(1, &entries[*e].1);
                            if BLOCK - cur % BLOCK < fr.len() {
                                cur = (cur / BLOCK + 1) * BLOCK;
                            }
                            if cur + fr.len() > FILE {
                                ok = false;
                                break;
                            }
                            file[cur..cur + fr.len()].copy_from_slice(&fr);
                            cur += fr.len();
                        }
                        if !ok {
                            continue;
                        }
                        let mut img = Image::new();
                        img.insert(wal_name(0), file);
                        env.stats.traces += 1;
                        env.stats.nontrivial(&(s.clone(), 1));
                        let names: Vec<&String> = s.iter().map(|e| &entries[*e].0).collect();
                        c10_eval(&mut env, &dir, &img, || json!({"engine":"damage-crafted","entries":names}));
                    }
                }
                crate::report::watchdog_idle();
                merged.lock().unwrap().merge(std::mem::take(&mut env.stats));
            });
        }
    });
    part.stats.merge(merged.into_inner().unwrap());
    part.extra.insert("crafted_entry_shapes".into(), json!(n));
}

//! Seed states ("start from non-initial states"): op prefixes that put the write cursor at
//! chosen alignments and spread the queues over several WAL files.
//!
//! The planner below predicts the cursor with a small simulation of the framing; this is used
//! ONLY to choose filler sizes. No verdict depends on it: the achieved cursor is measured from
//! the I/O trace and reported, and a seed whose prediction is off is still a valid start state.
use crate::ops::*;

#[derive(Clone, Debug)]
pub struct Seed {
    pub name: String,
    pub ops: Vec<Op>,
    /// predicted absolute cursor (file * FILE + offset) after the seed, if planned
    pub predicted_cursor: Option<usize>,
}

const FRAME_HDR: usize = 7;

/// Serialized length of an entry for a 1-byte queue name.
fn ser_len_ctl() -> usize {
    11 + 1
}
fn ser_len_app(sizes: &[usize]) -> usize {
    11 + 1 + sizes.iter().map(|s| 12 + s).sum::<usize>()
}

/// Cursor after writing an entry of `ser` serialized bytes at `cur`.
pub fn advance(mut cur: usize, ser: usize) -> usize {
    let mut left = ser;
    loop {
        let mut rem = BLOCK - cur % BLOCK;
        if rem < FRAME_HDR {
            cur += rem;
            rem = BLOCK;
        }
        let take = (rem - FRAME_HDR).min(left);
        cur += FRAME_HDR + take;
        left -= take;
        if left == 0 {
            return cur;
        }
    }
}

pub struct Planner {
    pub ops: Vec<Op>,
    pub cur: usize,
}

impl Planner {
    pub fn new() -> Planner {
        Planner { ops: vec![], cur: 0 }
    }
    pub fn push(&mut self, op: Op) -> &mut Self {
        let ser = match &op {
            Op::Create(_) | Op::Delete(_) | Op::Trunc { .. } => Some(ser_len_ctl()),
            Op::Append { sizes, pos, .. } => {
                let lens: Vec<usize> = sizes.iter().map(|s| s.len()).collect();
                if lens.is_empty() || matches!(pos, Pos::Retry | Pos::Past) {
                    None
                } else {
                    Some(ser_len_app(&lens))
                }
            }
            _ => None,
        };
        if let Some(ser) = ser {
            self.cur = advance(self.cur, ser);
        }
        self.ops.push(op);
        self
    }
    fn filler(&mut self, n: usize) {
        self.push(Op::app(QF, Pos::Auto, Sz::N(n as u32)));
    }
    /// Move the cursor to the next block start with filler appends.
    pub fn align_block(&mut self) {
        let rem = BLOCK - self.cur % BLOCK;
        if rem == BLOCK {
            return;
        }
        if rem < FRAME_HDR {
            // the next write pads; nothing to do: treat as aligned after padding
            // (a 0-byte filler would also pad). Use a full-block filler to make it real.
            self.filler(BLOCK - 31);
            return;
        }
        if rem >= 31 {
            self.filler(rem - 31);
        } else {
            // spanning entry ending exactly at the end of the next block
            let ser = (rem - FRAME_HDR) + (BLOCK - FRAME_HDR);
            self.filler(ser - 24);
        }
    }
    /// Payload size N of a filler append (24 + N serialized bytes) that moves the cursor from
    /// `cur` exactly to `goal`, if there is one (the end cursor is strictly increasing in N).
    fn solve(cur: usize, goal: usize) -> Option<usize> {
        if goal <= cur {
            return None;
        }
        let (mut lo, mut hi) = (0usize, goal - cur);
        while lo <= hi {
            let mid = (lo + hi) / 2;
            let end = advance(cur, 24 + mid);
            if end == goal {
                return Some(mid);
            }
            if end < goal {
                lo = mid + 1;
            } else {
                if mid == 0 {
                    break;
                }
                hi = mid - 1;
            }
        }
        None
    }

    /// Bring the cursor exactly to `target` (absolute) with at most four filler appends (breadth
    /// first over a few intermediate block starts). Returns false if unreachable.
    pub fn fill_to(&mut self, target: usize) -> bool {
        if self.cur == target {
            return true;
        }
        if self.cur > target {
            return false;
        }
        let mut frontier: Vec<(usize, Vec<usize>)> = vec![(self.cur, vec![])];
        for _depth in 0..4 {
            let mut next: Vec<(usize, Vec<usize>)> = vec![];
            for (cur, path) in &frontier {
                let mut goals: Vec<usize> = vec![target];
                let first_block = cur / BLOCK + 1;
                let last_block = target / BLOCK;
                for b in [first_block, first_block + 1, last_block.saturating_sub(1), last_block] {
                    let g = b * BLOCK;
                    if g > *cur && g < target && !goals.contains(&g) {
                        goals.push(g);
                    }
                }
                for g in goals {
                    if let Some(n) = Planner::solve(*cur, g) {
                        let mut p = path.clone();
                        p.push(n);
                        if g == target {
                            for n in p {
                                self.filler(n);
                            }
                            return self.cur == target;
                        }
                        if !next.iter().any(|(c, _)| *c == g) {
                            next.push((g, p));
                        }
                    }
                }
            }
            frontier = next;
        }
        false
    }
    pub fn seed(self, name: &str) -> Seed {
        Seed {
            name: name.to_string(),
            predicted_cursor: Some(self.cur),
            ops: self.ops,
        }
    }
}

fn s3(q: u8) -> Op {
    Op::app(q, Pos::Auto, Sz::S3)
}

pub fn seed_empty() -> Seed {
    Seed {
        name: "empty".into(),
        ops: vec![],
        predicted_cursor: Some(0),
    }
}

/// Queues a and b with one record each.
pub fn seed_ab() -> Seed {
    let mut p = Planner::new();
    p.push(Op::Create(QA)).push(Op::Create(QB)).push(s3(QA)).push(s3(QB));
    p.seed("ab")
}

/// Cursor at (end of block `block` of file 0) - k. `block` = 3 is the file end.
pub fn seed_cursor(block: usize, k: usize) -> Option<Seed> {
    let mut p = Planner::new();
    p.push(Op::Create(QA))
        .push(Op::Create(QB))
        .push(Op::Create(QF))
        .push(s3(QA))
        .push(s3(QB));
    let target = (block + 1) * BLOCK - k;
    if !p.fill_to(target) {
        return None;
    }
    Some(p.seed(&format!("cursor@block{}end-{}", block, k)))
}

/// a's records live only in file 0, b's only in file 1, cursor in file 1; filler truncated so
/// that only a and b hold files.
pub fn seed_two_files() -> Seed {
    let mut p = Planner::new();
    p.push(Op::Create(QA))
        .push(Op::Create(QB))
        .push(Op::Create(QF))
        .push(s3(QA))
        .push(s3(QA));
    p.fill_to(FILE);
    p.push(s3(QB)).push(s3(QB));
    p.push(Op::Trunc { q: QF, at: Tr::Last });
    p.seed("two-files:a@0,b@1")
}

/// a in file 0, (emptied) filler in file 1, b in file 2, cursor in file 2.
pub fn seed_three_files() -> Seed {
    let mut p = Planner::new();
    p.push(Op::Create(QA))
        .push(Op::Create(QB))
        .push(Op::Create(QF))
        .push(s3(QA))
        .push(s3(QA))
        .push(s3(QA));
    p.fill_to(2 * FILE);
    p.push(s3(QB)).push(s3(QB));
    p.push(Op::Trunc { q: QF, at: Tr::Last });
    p.seed("three-files:a@0,b@2")
}

/// a and b interleaved over files 0,1,2 (both have records in each file).
pub fn seed_interleaved() -> Seed {
    let mut p = Planner::new();
    p.push(Op::Create(QA)).push(Op::Create(QB)).push(Op::Create(QF));
    for f in 1..=2 {
        p.push(s3(QA)).push(s3(QB));
        p.fill_to(f * FILE);
    }
    p.push(s3(QA)).push(s3(QB));
    p.push(Op::Trunc { q: QF, at: Tr::Last });
    p.seed("interleaved:a,b@0,1,2")
}

/// a was emptied by truncation and its last mention is in file 0; b lives in file 1; cursor in
/// file 2. Any GC now deletes the only files that know a's next position.
pub fn seed_empty_old() -> Seed {
    let mut p = Planner::new();
    p.push(Op::Create(QA))
        .push(Op::Create(QB))
        .push(Op::Create(QF))
        .push(s3(QA))
        .push(s3(QA))
        .push(Op::Trunc { q: QA, at: Tr::Last });
    p.fill_to(FILE);
    p.push(s3(QB));
    p.fill_to(2 * FILE);
    p.push(s3(QF));
    p.seed("empty-old:a(empty)@0,b@1,f@0..2")
}

/// As seed_empty_old but the filler is gone too, so that file 0 is held by nothing but history:
/// b in file 1 holds the GC back until it is truncated.
pub fn seed_gc_ready() -> Seed {
    let mut p = Planner::new();
    p.push(Op::Create(QA))
        .push(Op::Create(QB))
        .push(Op::Create(QF))
        .push(s3(QA))
        .push(s3(QA));
    p.fill_to(FILE);
    p.push(s3(QB));
    p.fill_to(2 * FILE);
    p.push(s3(QB));
    p.push(Op::Delete(QF));
    p.seed("gc-ready:a@0,b@1+2")
}

pub fn seed_recreated() -> Seed {
    let mut p = Planner::new();
    p.push(Op::Create(QA))
        .push(s3(QA))
        .push(s3(QA))
        .push(Op::Delete(QA))
        .push(Op::Create(QA))
        .push(Op::app(QA, Pos::Gap, Sz::S3))
        .push(Op::Create(QB));
    p.seed("recreated:a")
}

/// a deleted and re-created, the new incarnation restarting at position 0 (below the old one's
/// next position).
pub fn seed_recreated_from_zero() -> Seed {
    let mut p = Planner::new();
    p.push(Op::Create(QA))
        .push(s3(QA))
        .push(s3(QA))
        .push(s3(QA))
        .push(Op::Delete(QA))
        .push(Op::Create(QA))
        .push(s3(QA))
        .push(Op::Create(QB))
        .push(s3(QB));
    p.seed("recreated-from-zero:a")
}

/// As `recreated-from-zero`, but the first incarnation of a was emptied by a truncation (it sat
/// empty at position 3) before it was deleted: if the deletion entry is lost, replay meets the
/// re-creation entry (position 0) on an existing, empty queue whose next position is 3.
pub fn seed_recreated_after_emptied() -> Seed {
    let mut p = Planner::new();
    p.push(Op::Create(QA))
        .push(s3(QA))
        .push(s3(QA))
        .push(s3(QA))
        .push(Op::Trunc { q: QA, at: Tr::Last })
        .push(Op::Delete(QA))
        .push(Op::Create(QA))
        .push(s3(QA))
        .push(s3(QA))
        .push(Op::Create(QB))
        .push(s3(QB));
    p.seed("recreated-after-emptied:a")
}

pub fn seed_future() -> Seed {
    let mut p = Planner::new();
    p.push(Op::Create(QA))
        .push(s3(QA))
        .push(Op::Trunc {
            q: QA,
            at: Tr::Beyond,
        })
        .push(Op::Create(QB))
        .push(s3(QB));
    p.seed("truncated-into-future:a")
}

/// The general-purpose seed list.
pub fn structural_seeds() -> Vec<Seed> {
    vec![
        seed_ab(),
        seed_two_files(),
        seed_three_files(),
        seed_interleaved(),
        seed_empty_old(),
        seed_gc_ready(),
        seed_recreated(),
        seed_recreated_from_zero(),
        seed_future(),
    ]
}

pub fn cursor_seeds(blocks: &[usize], ks: &[usize]) -> Vec<Seed> {
    let mut v = vec![];
    for b in blocks {
        for k in ks {
            if let Some(s) = seed_cursor(*b, *k) {
                v.push(s);
            }
        }
    }
    v
}

/// a's records live only in file 0; filler and a... everything else is empty; the cursor sits
/// `k` bytes before the end of file 1. A truncate of a now triggers a GC whose position entries
/// spill over the file boundary at a k-dependent point.
pub fn seed_gc_spill(k: usize) -> Option<Seed> {
    let mut p = Planner::new();
    p.push(Op::Create(QA))
        .push(Op::Create(QB))
        .push(Op::Create(QF))
        .push(s3(QA))
        .push(s3(QA));
    let target = 2 * FILE - k;
    // the final Trunc(f) entry takes 19 bytes (7 + 11 + 1) when it fits in the block
    let before = target.checked_sub(19)?;
    if !p.fill_to(before) {
        return None;
    }
    p.push(Op::Trunc { q: QF, at: Tr::Last });
    if p.cur != target {
        return None;
    }
    Some(p.seed(&format!("gc-spill:a@0,cursor@file1end-{}", k)))
}

pub fn gc_spill_seeds() -> Vec<Seed> {
    [0usize, 8, 10, 19, 20, 27, 30, 38, 39, 45]
        .iter()
        .filter_map(|k| seed_gc_spill(*k))
        .collect()
}

/// A queue whose payload buffer is large compared with its oldest records (so that a small
/// head truncation evicts a small fraction of it).
pub fn seed_big_buffer(q: u8) -> Seed {
    let mut p = Planner::new();
    p.push(Op::Create(QA)).push(Op::Create(QB));
    p.push(Op::app(q, Pos::Auto, Sz::L))
        .push(Op::app(q, Pos::Auto, Sz::S5))
        .push(Op::app(q, Pos::Auto, Sz::XL))
        .push(Op::app(q, Pos::Auto, Sz::XL))
        .push(Op::app(q, Pos::Auto, Sz::XL))
        .push(Op::app(q, Pos::Auto, Sz::XL));
    p.seed(&format!("big-buffer:{}", q))
}

/// Cursor exactly at the start of block `block` of file 0, every queue empty except a (one record
/// in file 0): an entry appended now that is longer than what is left of file 0 straddles the file
/// boundary, and once a is truncated file 0 can be deleted - the log then BEGINS with the
/// continuation frames of an entry whose head is gone.
pub fn seed_straddle(block: usize, back: usize) -> Option<Seed> {
    let mut p = Planner::new();
    p.push(Op::Create(QA))
        .push(Op::Create(QB))
        .push(Op::Create(QF))
        .push(s3(QA));
    let target = (block + 1) * BLOCK - BLOCK - back;
    let before = target.checked_sub(19)?;
    if !p.fill_to(before) {
        return None;
    }
    p.push(Op::Trunc { q: QF, at: Tr::Last });
    if p.cur != target {
        return None;
    }
    Some(p.seed(&format!("straddle:cursor@block{}start-{}", block, back)))
}

pub fn straddle_seeds() -> Vec<Seed> {
    [(3usize, 0usize), (3, 7), (3, 10), (2, 0)]
        .iter()
        .filter_map(|(b, k)| seed_straddle(*b, *k))
        .collect()
}

/// b has one old record in file 0, a has records in every file 0..n-1, the filler is empty: a
/// truncate of a reclaims nothing (b pins file 0), the following truncate of b makes n-1 files
/// reclaimable at once.
pub fn seed_many_files(n: usize) -> Seed {
    let mut p = Planner::new();
    p.push(Op::Create(QA)).push(Op::Create(QB)).push(Op::Create(QF)).push(s3(QB));
    for f in 1..n {
        p.push(s3(QA));
        p.fill_to(f * FILE);
    }
    p.push(s3(QA));
    p.push(Op::Trunc { q: QF, at: Tr::Last });
    p.seed(&format!("many-files:b@0,a@0..{}", n - 1))
}

/// `n` files; b has one old record in file 0 (the pin) and one in file n-2; a has a record in
/// every file; an extra queue has its only record in file n-2 and is deleted in file n-1; a is
/// emptied in file n-1 (nothing can be released: b pins file 0); finally b is emptied, which
/// releases files 0..n-2 in ONE pass. The entries that supersede what file n-2 holds (a's and b's
/// truncations, the deletion of the extra queue) all live in file n-1: whatever goes wrong with the
/// last file of a mass release shows after [roll over, release file n-1, restart].
pub fn seed_mass_release(n: usize) -> Seed {
    let extra = 4u8;
    let mut p = Planner::new();
    p.push(Op::Create(QA)).push(Op::Create(QB)).push(Op::Create(QF)).push(Op::Create(extra)).push(s3(QB));
    for f in 1..n {
        p.push(s3(QA));
        if f == n - 1 {
            p.push(s3(QB));
            p.push(s3(extra));
        }
        p.fill_to(f * FILE);
    }
    p.push(s3(QA));
    p.push(Op::Trunc { q: QF, at: Tr::Last });
    p.push(Op::Delete(extra));
    p.push(Op::Trunc { q: QA, at: Tr::Last });
    p.push(Op::Trunc { q: QB, at: Tr::Last });
    let mut s = p.seed(&format!("mass-release:{} files released by one truncate, superseding entries in the file after them", n - 1));
    s.predicted_cursor = None;
    s
}

pub fn mass_release_seeds() -> Vec<Seed> {
    vec![seed_mass_release(6), seed_mass_release(10), seed_mass_release(18), seed_mass_release(34)]
}

/// Alphabet that rolls over, releases the current file and restarts.
pub fn a_release() -> Vec<Op> {
    vec![
        Op::app(QA, Pos::Auto, Sz::XL),
        Op::Trunc { q: QA, at: Tr::Last },
        Op::Reopen,
        Op::app(QB, Pos::Auto, Sz::S3),
        Op::Trunc { q: QB, at: Tr::Last },
    ]
}

/// A single WAL file in which nothing retained lives any more (every queue emptied by
/// truncation while there was nothing to collect), cursor `r` bytes before its end: the next
/// append or create rolls over WITHOUT a GC pass, so the following `open` is the one that has
/// files to delete.
pub fn seed_all_dead_single_file(r: usize) -> Option<Seed> {
    let mut p = Planner::new();
    // (queue b is deliberately not created: creating it later is the one call that can roll
    // over without a GC pass and without holding the old file)
    p.push(Op::Create(QA))
        .push(Op::Create(QF))
        .push(s3(QA))
        .push(s3(QA));
    let target = FILE - r;
    let before = target.checked_sub(2 * 19)?;
    if !p.fill_to(before) {
        return None;
    }
    p.push(Op::Trunc { q: QF, at: Tr::Last });
    p.push(Op::Trunc { q: QA, at: Tr::Last });
    if p.cur != target {
        return None;
    }
    Some(p.seed(&format!("all-dead-single-file:cursor@file0end-{}", r)))
}

pub fn all_dead_seeds() -> Vec<Seed> {
    [0usize, 8, 10, 19, 30]
        .iter()
        .filter_map(|r| seed_all_dead_single_file(*r))
        .collect()
}

/// File 0 has already been collected: a's records lived only in file 0 and were truncated, b
/// lives in file 1 (directory = [1] or [1, 2]).
pub fn seed_collected() -> Seed {
    let mut p = Planner::new();
    p.push(Op::Create(QA))
        .push(Op::Create(QB))
        .push(Op::Create(QF))
        .push(s3(QA))
        .push(s3(QA));
    p.fill_to(FILE);
    // a control entry rolls into file 1 first, so that b's appends are attributed to file 1 (an
    // append issued with the cursor exactly at the end of file 0 would pin file 0: D4)
    p.push(Op::Trunc { q: QF, at: Tr::Last });
    p.push(s3(QB)).push(s3(QB));
    p.push(Op::Trunc { q: QA, at: Tr::Last });
    let mut s = p.seed("collected:file0-gone,b@1");
    s.predicted_cursor = None;
    s
}

/// Every seed state of this file: used at a shallow depth by every property, so that a state
/// class introduced for one property is visited by all of them.
pub fn all_seeds() -> Vec<Seed> {
    let mut v = vec![seed_empty()];
    v.extend(structural_seeds());
    v.extend(cursor_seeds(&[0, 3], &[0, 1, 6, 7, 8, 19, 34]));
    v.extend(gc_spill_seeds());
    v.push(seed_big_buffer(QA));
    v.extend(straddle_seeds());
    v.push(seed_many_files(7));
    v.push(seed_many_files(18));
    v.push(seed_many_queues());
    v.extend(all_dead_seeds());
    v.push(seed_collected());
    v.push(seed_sliding_window(5, 2));
    v.push(seed_sliding_window(8, 2));
    v.extend(long_history_seeds());
    v.push(seed_zero_only());
    // (appended last: the real geometry's quick tier takes every 4th seed of this list, and a
    // seed inserted in the middle would change which ones those are)
    v.push(seed_recreated_after_emptied());
    v
}

/// Thirty-two queues, all of them empty except a (two records in file 0); cursor in file 1: a
/// truncate of a triggers a GC that has to write dozens of position entries (several files' worth
/// in the 64-byte geometry).
pub fn seed_many_queues() -> Seed {
    let mut p = Planner::new();
    p.push(Op::Create(QA)).push(Op::Create(QB)).push(Op::Create(QF));
    for i in 0..NUM_EXTRA_QUEUES {
        p.push(Op::Create((4 + i) as u8));
    }
    p.push(s3(QA)).push(s3(QA));
    let next_file = (p.cur / FILE + 1) * FILE;
    p.fill_to(next_file + BLOCK);
    p.push(Op::Trunc { q: QF, at: Tr::Last });
    let mut s = p.seed("many-queues:32 queues, a@early file");
    s.predicted_cursor = None;
    s
}

/// Queue a used as a sliding window of records a bit longer than a block (33-50 KB in the real
/// geometry): `rounds` times [append, drop the oldest once more than `keep` are retained]. The
/// ring buffer behind a has had its head moved and its capacity shrunk several times; depending on
/// `rounds` the retained bytes wrap around the end of the allocation.
pub fn seed_sliding_window(rounds: usize, keep: usize) -> Seed {
    let mut p = Planner::new();
    p.push(Op::Create(QA)).push(Op::Create(QB));
    for i in 0..rounds {
        let n = BLOCK + 1 + BLOCK * ((i * 7 + 3) % 11) / 22;
        p.push(Op::app(QA, Pos::Auto, Sz::N(n as u32)));
        if i >= keep {
            p.push(Op::Trunc { q: QA, at: Tr::First });
        }
    }
    let mut s = p.seed(&format!("sliding-window:{} rounds, keep {}", rounds, keep));
    s.predicted_cursor = None;
    s
}

/// A long history ("aged log"): `rounds` rounds of appends to a, b (small records, batches, one
/// 1.5-block record per round so that files roll over every other round), with a truncated to its
/// middle every other round, b emptied every third, f deleted and re-created every fourth and a
/// restart every fifth. After 26 rounds: file numbers in the teens, a dozen GC passes, a dozen
/// truncations per queue, f in its 7th incarnation, five restarts behind.
pub fn seed_aged(rounds: usize) -> Seed {
    let mut p = Planner::new();
    p.push(Op::Create(QA)).push(Op::Create(QB)).push(Op::Create(QF));
    for r in 0..rounds {
        p.push(Op::app(QA, Pos::Auto, Sz::S3));
        p.push(Op::app(QA, Pos::Auto, Sz::S5));
        p.push(Op::app(QB, Pos::Auto, Sz::L));
        p.push(Op::Append { q: QA, pos: Pos::Auto, sizes: vec![Sz::S1, Sz::S0, Sz::S5] });
        if r % 2 == 1 {
            p.push(Op::Trunc { q: QA, at: Tr::Mid });
        }
        if r % 3 == 2 {
            p.push(Op::Trunc { q: QB, at: Tr::Last });
        }
        if r % 4 == 3 {
            p.push(Op::Delete(QF)).push(Op::Create(QF)).push(Op::app(QF, Pos::Auto, Sz::S3));
        }
        if r % 5 == 4 {
            p.push(Op::Reopen);
        }
    }
    let mut s = p.seed(&format!("aged:{} rounds of append/truncate/delete+create/restart", rounds));
    s.predicted_cursor = None;
    s
}

/// Queue a hoards `n` small records (appended one call at a time, never truncated) while b rolls
/// the files over: one queue with dozens of retained records spread over many files, positions
/// far from 0; b keeps only its newest record.
pub fn seed_hoarder(n: usize) -> Seed {
    let mut p = Planner::new();
    p.push(Op::Create(QA)).push(Op::Create(QB));
    for i in 0..n {
        p.push(Op::app(QA, Pos::Auto, if i % 3 == 0 { Sz::S5 } else { Sz::S1 }));
        if i % 8 == 7 {
            p.push(Op::app(QB, Pos::Auto, Sz::L));
            p.push(Op::Trunc { q: QB, at: Tr::Mid });
        }
    }
    let mut s = p.seed(&format!("hoarder:a retains {} records over many files", n));
    s.predicted_cursor = None;
    s
}

/// Queue a retains `n` records of 400-600 bytes (one call each, never truncated): a long queue in
/// which the payload bytes dominate the per-record bookkeeping, so that memory that is not released
/// (or counted twice) shows in the accounting whatever the per-record allowance.
pub fn seed_hoarder_big(n: usize) -> Seed {
    let mut p = Planner::new();
    p.push(Op::Create(QA)).push(Op::Create(QB));
    for i in 0..n {
        p.push(Op::app(QA, Pos::Auto, Sz::N(400 + ((i * 37) % 200) as u32)));
    }
    p.push(s3(QB));
    let mut s = p.seed(&format!("hoarder-big:a retains {} records of 400-600 bytes", n));
    s.predicted_cursor = None;
    s
}

/// Queues a and b hold nothing but zero-length records (a: one single append and a batch of two;
/// b: one), written into file 1; then the filler is emptied and the GC pass deletes file 0 (which
/// held the creation entries) and records the positions of the empty queues: "no payload bytes"
/// is not "no records".
pub fn seed_zero_only() -> Seed {
    let mut p = Planner::new();
    p.push(Op::Create(QA)).push(Op::Create(QB)).push(Op::Create(QF));
    p.fill_to(FILE + BLOCK);
    p.push(Op::app(QA, Pos::Auto, Sz::S0));
    p.push(Op::Append { q: QA, pos: Pos::Auto, sizes: vec![Sz::S0, Sz::S0] });
    p.push(Op::app(QB, Pos::Auto, Sz::S0));
    p.push(Op::Trunc { q: QF, at: Tr::Last });
    p.seed("zero-only:a and b hold only zero-length records (file 1); file 0 has just been collected")
}

pub fn long_history_seeds() -> Vec<Seed> {
    vec![seed_aged(11), seed_aged(26), seed_hoarder(40), seed_hoarder(130), seed_hoarder(300)]
}

pub fn sliding_window_seeds() -> Vec<Seed> {
    let mut v = Vec::new();
    for rounds in 3..=8 {
        v.push(seed_sliding_window(rounds, 2));
    }
    v.push(seed_sliding_window(6, 1));
    v.push(seed_sliding_window(7, 3));
    v
}

/// `all_seeds` without the three seeds whose images / GC passes are an order of magnitude larger
/// (18 files, 32 queues, 300 retained records over 70 files): for the engines that enumerate crash
/// points or faults per image.
pub fn all_seeds_light() -> Vec<Seed> {
    all_seeds().into_iter().filter(|s| !s.name.starts_with("many-queues") && !s.name.starts_with("many-files:b@0,a@0..17") && !s.name.starts_with("hoarder:a retains 300")).collect()
}

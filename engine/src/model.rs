//! The reference model: a map from queue name to an ordered list of (position, payload) plus a
//! next position. Boring on purpose: no files, frames, buffers or I/O errors.
use std::collections::BTreeMap;
use std::sync::Arc;

pub type Payload = Arc<[u8]>;

#[derive(Clone, Debug, PartialEq, Eq, Default)]
pub struct MQ {
    pub recs: Vec<(u64, Payload)>,
    pub next: u64,
}

impl MQ {
    pub fn first(&self) -> u64 {
        self.recs.first().map(|r| r.0).unwrap_or(self.next)
    }
    pub fn last_position(&self) -> Option<u64> {
        self.next.checked_sub(1)
    }
    pub fn payload_bytes(&self) -> usize {
        self.recs.iter().map(|r| r.1.len()).sum()
    }
}

#[derive(Clone, Debug, PartialEq, Eq, Default)]
pub struct Model {
    pub queues: BTreeMap<String, MQ>,
}

#[derive(Clone, Debug, PartialEq, Eq)]
pub enum ErrKind {
    AlreadyExists,
    MissingQueue,
    Past,
    /// a queue name longer than 65535 bytes: outside the API's domain; the call must be refused
    /// one way or another (the crate panics) and leave no trace
    NameTooLong,
    Io(String),
}

#[derive(Clone, Debug, PartialEq, Eq)]
pub enum Outcome {
    Created,
    Deleted,
    /// last position, or None for an acknowledged no-op
    Appended(Option<u64>),
    /// number of evicted records
    Truncated(usize),
    Persisted,
    Reopened,
    Err(ErrKind),
}

impl Outcome {
    /// Calls that must leave no trace (C13).
    pub fn is_rejected_or_noop(&self) -> bool {
        matches!(
            self,
            Outcome::Appended(None)
                | Outcome::Err(ErrKind::AlreadyExists)
                | Outcome::Err(ErrKind::MissingQueue)
                | Outcome::Err(ErrKind::Past)
                | Outcome::Err(ErrKind::NameTooLong)
        )
    }
    pub fn label(&self) -> &'static str {
        match self {
            Outcome::Created => "created",
            Outcome::Deleted => "deleted",
            Outcome::Appended(Some(_)) => "appended",
            Outcome::Appended(None) => "append-noop",
            Outcome::Truncated(0) => "truncated-0",
            Outcome::Truncated(_) => "truncated-n",
            Outcome::Persisted => "persisted",
            Outcome::Reopened => "reopened",
            Outcome::Err(ErrKind::AlreadyExists) => "err-exists",
            Outcome::Err(ErrKind::MissingQueue) => "err-missing",
            Outcome::Err(ErrKind::Past) => "err-past",
            Outcome::Err(ErrKind::NameTooLong) => "err-name-too-long",
            Outcome::Err(ErrKind::Io(_)) => "err-io",
        }
    }
}

/// A fully resolved API call.
#[derive(Clone, Debug, PartialEq, Eq)]
pub enum COp {
    Create(String),
    Delete(String),
    Append {
        q: String,
        pos: Option<u64>,
        payloads: Vec<Payload>,
    },
    Trunc {
        q: String,
        pos: u64,
    },
    Persist {
        fsync: bool,
    },
    Reopen,
}

impl COp {
    pub fn queue(&self) -> Option<&str> {
        match self {
            COp::Create(q) | COp::Delete(q) => Some(q),
            COp::Append { q, .. } | COp::Trunc { q, .. } => Some(q),
            _ => None,
        }
    }
    pub fn to_json(&self) -> serde_json::Value {
        use serde_json::json;
        fn name(q: &str) -> serde_json::Value {
            if q.len() > 40 {
                json!({"name_len": q.len(), "name_first": q.chars().next().map(|c| c.to_string())})
            } else {
                json!(q)
            }
        }
        match self {
            COp::Create(q) => json!({"op":"create_queue","queue":name(q)}),
            COp::Delete(q) => json!({"op":"delete_queue","queue":name(q)}),
            COp::Append { q, pos, payloads } => {
                let ps: Vec<serde_json::Value> = payloads
                    .iter()
                    .map(|p| {
                        if p.len() <= 16 {
                            json!({"hex": hex(p)})
                        } else {
                            json!({"len": p.len(), "first_hex": hex(&p[..8])})
                        }
                    })
                    .collect();
                json!({"op":"append_records","queue":name(q),"position_opt":pos,"payloads":ps})
            }
            COp::Trunc { q, pos } => json!({"op":"truncate","queue":name(q),"up_to":pos}),
            COp::Persist { fsync } => {
                json!({"op":"persist","action": if *fsync {"FlushAndFsync"} else {"Flush"}})
            }
            COp::Reopen => json!({"op":"drop+open"}),
        }
    }
}

pub fn hex(bytes: &[u8]) -> String {
    let mut s = String::with_capacity(bytes.len() * 2);
    for b in bytes {
        s.push_str(&format!("{:02x}", b));
    }
    s
}

impl Model {
    pub fn apply(&mut self, op: &COp) -> Outcome {
        match op {
            COp::Create(q) => {
                if self.queues.contains_key(q) {
                    return Outcome::Err(ErrKind::AlreadyExists);
                }
                if q.len() > 65535 {
                    return Outcome::Err(ErrKind::NameTooLong);
                }
                self.queues.insert(q.clone(), MQ::default());
                Outcome::Created
            }
            COp::Delete(q) => {
                if self.queues.remove(q).is_none() {
                    return Outcome::Err(ErrKind::MissingQueue);
                }
                Outcome::Deleted
            }
            COp::Append { q, pos, payloads } => {
                let Some(mq) = self.queues.get_mut(q) else {
                    return Outcome::Err(ErrKind::MissingQueue);
                };
                if let Some(p) = pos {
                    if p.wrapping_add(1) == mq.next {
                        return Outcome::Appended(None);
                    }
                    if *p < mq.next {
                        return Outcome::Err(ErrKind::Past);
                    }
                }
                if payloads.is_empty() {
                    return Outcome::Appended(None);
                }
                let mut p = pos.unwrap_or(mq.next);
                for payload in payloads {
                    mq.recs.push((p, payload.clone()));
                    p += 1;
                }
                mq.next = p;
                Outcome::Appended(Some(p - 1))
            }
            COp::Trunc { q, pos } => {
                let Some(mq) = self.queues.get_mut(q) else {
                    return Outcome::Err(ErrKind::MissingQueue);
                };
                let n = mq.recs.iter().take_while(|r| r.0 <= *pos).count();
                mq.recs.drain(..n);
                if mq.recs.is_empty() {
                    mq.next = mq.next.max(pos.saturating_add(1));
                }
                Outcome::Truncated(n)
            }
            COp::Persist { .. } => Outcome::Persisted,
            COp::Reopen => Outcome::Reopened,
        }
    }

    pub fn retained_payload_bytes(&self) -> usize {
        self.queues.values().map(|q| q.payload_bytes()).sum()
    }
    pub fn name_bytes(&self) -> usize {
        self.queues.keys().map(|k| k.len()).sum()
    }
    pub fn retained_records(&self) -> usize {
        self.queues.values().map(|q| q.recs.len()).sum()
    }
}

//! CRASH engine: every crash point of every history, on the recorded fs effects.
//!
//! A history is run on the real code with the fs trace on. The trace (effects below the
//! `BufWriter`) is replayed into a simulated OS image and a simulated stable-storage image.
//! For every prefix of the effects of the op under test, and every byte cut of every write, the
//! image is materialised in a scratch directory and recovered with the real `open`.
use std::collections::{BTreeMap, BTreeSet};
use std::path::Path;

use mrecordlog::verif_hooks as vh;
use mrecordlog::verif_hooks::Event;
use serde_json::json;

use crate::exec::*;
use crate::model::*;
use crate::ops::*;
use crate::report::*;
use crate::seq::*;

pub type Image = BTreeMap<String, Vec<u8>>;

#[derive(Clone, Debug, PartialEq, Eq)]
enum DirOp {
    Create(String),
    Unlink(String),
}

/// What the OS holds, and what stable storage holds, according to the trace.
#[derive(Clone, Default)]
pub struct Sim {
    pub os: Image,
    /// content at the file's last fdatasync (absent: never synced)
    synced: Image,
    /// last OS content of files unlinked in the OS but not yet durably
    ghosts: Image,
    durable_names: BTreeSet<String>,
    pending: Vec<DirOp>,
    /// per file: the OS-level effects since its last sync, as successive contents
    unsynced_steps: BTreeMap<String, Vec<Vec<u8>>>,
}

impl Sim {
    /// Everything in `image` is both in the OS and on stable storage.
    pub fn from_image(image: &Image) -> Sim {
        Sim { os: image.clone(), synced: image.clone(), durable_names: image.keys().cloned().collect(), ..Default::default() }
    }

    fn touch(&mut self, name: &str) {
        if let Some(content) = self.os.get(name) {
            self.unsynced_steps
                .entry(name.to_string())
                .or_default()
                .push(content.clone());
        }
    }

    /// Applies one event; for a write, only its first `cut` bytes if given.
    pub fn apply(&mut self, e: &Event, cut: Option<usize>) {
        match e {
            Event::Open {
                name,
                create_new: true,
                is_dir: false,
                ..
            } => {
                if !self.os.contains_key(name) {
                    self.os.insert(name.clone(), vec![]);
                    self.pending.push(DirOp::Create(name.clone()));
                    self.touch(name);
                }
            }
            Event::SetLen { name, len } => {
                if let Some(f) = self.os.get_mut(name) {
                    f.resize(*len as usize, 0);
                }
                self.touch(name);
            }
            Event::Write { name, offset, data } => {
                let data = match cut {
                    Some(c) => &data[..c.min(data.len())],
                    None => &data[..],
                };
                if let Some(f) = self.os.get_mut(name) {
                    let end = *offset as usize + data.len();
                    if f.len() < end {
                        f.resize(end, 0);
                    }
                    f[*offset as usize..end].copy_from_slice(data);
                }
                self.touch(name);
            }
            Event::Unlink { name } => {
                if let Some(content) = self.os.remove(name) {
                    self.ghosts.insert(name.clone(), content);
                }
                self.pending.push(DirOp::Unlink(name.clone()));
            }
            Event::SyncData {
                name,
                is_dir: false,
            } => {
                if let Some(content) = self.os.get(name) {
                    self.synced.insert(name.clone(), content.clone());
                }
                self.unsynced_steps.remove(name);
            }
            Event::SyncData { is_dir: true, .. } => {
                for op in self.pending.drain(..) {
                    match op {
                        DirOp::Create(n) => {
                            self.durable_names.insert(n);
                        }
                        DirOp::Unlink(n) => {
                            self.durable_names.remove(&n);
                            self.synced.remove(&n);
                            self.ghosts.remove(&n);
                        }
                    }
                }
            }
            _ => {}
        }
    }

    pub fn is_mutation(e: &Event) -> bool {
        matches!(
            e,
            Event::Open {
                create_new: true,
                is_dir: false,
                ..
            } | Event::SetLen { .. }
                | Event::Write { .. }
                | Event::Unlink { .. }
        )
    }

    /// Power-loss images at this point: every durable prefix of the pending directory
    /// operations x, per file, every prefix of its unsynced effects (capped).
    pub fn power_loss_images(&self, cap: usize, capped: &mut bool) -> Vec<Image> {
        let mut out: Vec<Image> = vec![];
        for d in 0..=self.pending.len() {
            let mut names = self.durable_names.clone();
            for op in &self.pending[..d] {
                match op {
                    DirOp::Create(n) => {
                        names.insert(n.clone());
                    }
                    DirOp::Unlink(n) => {
                        names.remove(n);
                    }
                }
            }
            // per file: candidate contents
            let mut choices: Vec<(String, Vec<Vec<u8>>)> = vec![];
            for n in &names {
                let mut c: Vec<Vec<u8>> = vec![];
                if let Some(s) = self.synced.get(n) {
                    c.push(s.clone());
                } else {
                    c.push(vec![]);
                }
                if let Some(steps) = self.unsynced_steps.get(n) {
                    for s in steps {
                        if !c.contains(s) {
                            c.push(s.clone());
                        }
                    }
                }
                let current = self.os.get(n).or_else(|| self.ghosts.get(n));
                if let Some(cur) = current {
                    if !c.contains(cur) {
                        c.push(cur.clone());
                    }
                }
                choices.push((n.clone(), c));
            }
            // extremes first (none / all), then the cross product up to the cap
            let total: usize = choices.iter().map(|c| c.1.len()).fold(1usize, |a, b| a.saturating_mul(b));
            if total > cap {
                // Too many combinations for this directory prefix: instead of an arbitrary slice of
                // the product, take its two corners (every file at its oldest / at its newest
                // content) and, for each file in turn, every one of its contents with all other
                // files at the oldest and at the newest. Reported as a cap hit.
                *capped = true;
                for other_newest in [false, true] {
                    for (k, (_, ck)) in choices.iter().enumerate() {
                        for i in 0..ck.len() {
                            let img: Image = choices
                                .iter()
                                .enumerate()
                                .map(|(j, (n, c))| (n.clone(), if j == k { c[i].clone() } else if other_newest { c[c.len() - 1].clone() } else { c[0].clone() }))
                                .collect();
                            if !out.contains(&img) {
                                out.push(img);
                            }
                        }
                    }
                }
                continue;
            }
            let mut idx = vec![0usize; choices.len()];
            let mut emitted = 0usize;
            loop {
                let img: Image = choices
                    .iter()
                    .zip(idx.iter())
                    .map(|((n, c), i)| (n.clone(), c[*i].clone()))
                    .collect();
                if !out.contains(&img) {
                    out.push(img);
                }
                emitted += 1;
                if emitted >= total {
                    break;
                }
                if out.len() >= cap {
                    *capped = true;
                    break;
                }
                let mut k = 0;
                loop {
                    if k == idx.len() {
                        break;
                    }
                    idx[k] += 1;
                    if idx[k] < choices[k].1.len() {
                        break;
                    }
                    idx[k] = 0;
                    k += 1;
                }
                if k == idx.len() {
                    break;
                }
            }
        }
        out
    }
}

fn image_summary(image: &Image) -> serde_json::Value {
    json!(image
        .iter()
        .map(|(n, b)| {
            let nz = b.iter().rposition(|x| *x != 0).map(|p| p + 1).unwrap_or(0);
            format!("{}: {} bytes, last non-zero byte at {}", n, b.len(), nz)
        })
        .collect::<Vec<_>>())
}

#[derive(Clone, Copy, Debug, PartialEq, Eq)]
pub enum Oracle {
    /// flush-per-op policy: {S_{i-1}, S_i} + partial
    C02,
    /// at least as recent as the last persisted point
    C03,
    /// batch integrity only
    C12,
    /// position monitor only
    C04,
    /// directory listing after recovery vs. file attribution of the retained records
    C06,
}

#[derive(Clone, Debug)]
pub struct CrashCfg {
    pub property: &'static str,
    pub oracle: Oracle,
    pub policy: PolicyCfg,
    pub hash_seed: u64,
    pub power_loss: bool,
    pub second_crash: bool,
    /// continuation depth at crash points adjacent to create / set_len / unlink effects and at
    /// op boundaries
    pub cont_struct: usize,
    /// continuation depth elsewhere
    pub cont_other: usize,
    /// also enumerate the crash points of the initial open of an empty directory
    pub initial_open: bool,
    /// Start from a non-initial directory: the seed is run and closed, the newest WAL file of the
    /// image it leaves is cut to (`Some(len)`) bytes - the size a file has when its extension to
    /// full length had only partly reached the disk -, the directory is opened (the model is
    /// re-based on what that open yields) and the ops after the seed form the history.
    pub pre_cut_last_file: Option<usize>,
}

fn cont_alphabet() -> Vec<Op> {
    vec![
        Op::app(QA, Pos::Auto, Sz::S3),
        Op::app(QB, Pos::Auto, Sz::S3),
        Op::app(QA, Pos::Auto, Sz::N((FILE - BLOCK) as u32)),
        Op::Trunc { q: QA, at: Tr::Last },
        Op::Create(QB),
        Op::Delete(QA),
        Op::Reopen,
        // the caller retries its last append with the same explicit position
        Op::app(QA, Pos::Retry, Sz::S3),
    ]
}

/// Is `r` one of the allowed recovered states?
/// states[k] = model after k ops; ops[k] = op k+1. Allowed: S_j for lo <= j <= hi, or a partial
/// application of op j+1 (truncate / delete) on S_j for lo <= j < hi.
fn allowed(r: &Obs, states: &[Model], ops: &[COp], lo: usize, hi: usize) -> Option<String> {
    for j in (lo..=hi).rev() {
        if obs_is_model(r, &states[j]) {
            return Some(format!("S_{}", j));
        }
    }
    for j in lo..hi {
        if partial_match(r, &states[j], &states[j + 1], &ops[j]) {
            return Some(format!("partial(op {})", j + 1));
        }
    }
    None
}

/// `*r == model_obs(m)` without building the observation (long histories have hundreds of states).
fn obs_is_model(r: &Obs, m: &Model) -> bool {
    r.len() == m.queues.len()
        && r.iter().zip(m.queues.iter()).all(|((rn, rq), (mn, mq))| {
            rn == mn
                && rq.last_pos == mq.last_position()
                && rq.recs.len() == mq.recs.len()
                && rq.recs.iter().zip(mq.recs.iter()).all(|(a, b)| a.0 == b.0 && a.1[..] == b.1[..])
        })
}

fn partial_match(r: &Obs, prev: &Model, next: &Model, op: &COp) -> bool {
    let (q, is_delete) = match op {
        COp::Trunc { q, .. } => (q, false),
        COp::Delete(q) => (q, true),
        _ => return false,
    };
    let Some(pq) = prev.queues.get(q) else {
        return false;
    };
    // every other queue exactly as before
    for (name, mq) in &prev.queues {
        if name == q {
            continue;
        }
        let Some(rq) = r.get(name) else { return false };
        if rq.last_pos != mq.last_position()
            || rq.recs.len() != mq.recs.len()
            || !rq.recs.iter().zip(mq.recs.iter()).all(|(a, b)| a.0 == b.0 && a.1[..] == b.1[..])
        {
            return false;
        }
    }
    for name in r.keys() {
        if name != q && !prev.queues.contains_key(name) {
            return false;
        }
    }
    let Some(rq) = r.get(q) else {
        return is_delete;
    };
    // a suffix of the previous records ...
    if rq.recs.len() > pq.recs.len() {
        return false;
    }
    let off = pq.recs.len() - rq.recs.len();
    if !rq
        .recs
        .iter()
        .zip(pq.recs[off..].iter())
        .all(|(a, b)| a.0 == b.0 && a.1[..] == b.1[..])
    {
        return false;
    }
    // ... that still contains everything the completed op retains
    let nq = next.queues.get(q);
    if let Some(nq) = nq {
        if nq.recs.len() > rq.recs.len() {
            return false;
        }
    }
    let rnext = rq.last_pos.map(|p| p + 1).unwrap_or(0);
    rnext == pq.next || nq.map(|n| n.next == rnext).unwrap_or(false)
}

/// Index of the last op (1-based count of completed ops) whose return guarantees persistence of
/// everything before it, among the first `n` ops. `fsync`: power-loss model.
fn persisted_point(
    policy: PolicyCfg,
    ops: &[COp],
    outcomes: &[Outcome],
    n: usize,
    fsync: bool,
) -> usize {
    let mut p = 0;
    for k in 0..n {
        let persisted = match (&ops[k], &outcomes[k]) {
            (COp::Create(_), Outcome::Created) | (COp::Delete(_), Outcome::Deleted) => true,
            (COp::Persist { fsync: f }, Outcome::Persisted) => *f || !fsync,
            (COp::Append { .. }, Outcome::Appended(Some(_)))
            | (COp::Trunc { .. }, Outcome::Truncated(_)) => match policy.per_op_persist() {
                Some(f) => f || !fsync,
                None => false,
            },
            // a clean drop flushes (not fsync)
            (COp::Reopen, Outcome::Reopened) => !fsync,
            _ => false,
        };
        if persisted {
            p = k + 1;
        }
    }
    p
}

struct Hist {
    cops: Vec<COp>,
    outcomes: Vec<Outcome>,
    events: Vec<Vec<Event>>,
    states: Vec<Model>,
    /// (queue, payloads, first position) of every multi-record append that succeeded
    batches: Vec<(String, Vec<(u64, Vec<u8>)>)>,
    /// truncate positions issued per queue (completed or in flight)
    truncs: Vec<(String, u64)>,
    /// (queue, position, payload) -> (file that received the first byte the append wrote,
    /// whether that byte was at offset 0 of the file with no padding before)
    attr: Vec<((String, u64, Vec<u8>), (u64, bool))>,
    /// WAL files in which at least one entry starts (a Full or First frame was written there)
    entry_starts: std::collections::BTreeSet<u64>,
}

struct Ctx<'a> {
    cfg: &'a CrashCfg,
    leaf: &'a Leaf<'a>,
    dir2: &'a Path,
    hist: &'a Hist,
    /// index (0-based) of the op being crashed; usize::MAX for the initial open
    op_index: usize,
}

fn case_json(ctx: &Ctx, point: &serde_json::Value, image: &Image) -> serde_json::Value {
    json!({
        "engine": "crash",
        "oracle": format!("{:?}", ctx.cfg.oracle),
        "policy": ctx.cfg.policy,
        "hash_seed": ctx.cfg.hash_seed,
        "power_loss": ctx.cfg.power_loss,
        "pre_cut_last_file": ctx.cfg.pre_cut_last_file,
        "seed_name": ctx.leaf.seed.name,
        "seed_ops": ctx.leaf.seed.ops,
        "ops": ctx.leaf.ops,
        "crashed_op_index_incl_seed": if ctx.op_index == usize::MAX { json!("initial open") } else { json!(ctx.op_index) },
        "crashed_op": if ctx.op_index == usize::MAX { json!("open") } else { ctx.hist.cops[ctx.op_index].to_json() },
        "crash_point": point,
        "image": image_summary(image),
    })
}

pub fn crash_leaf(env: &mut Env, leaf: &Leaf, cfg: &CrashCfg) {
    env.stats.traces += 1;
    env.scratch.reset();
    let dir = env.scratch.path.clone();
    let dir2 = env.scratch2.path.clone();
    let stats = &mut env.stats;
    let res = guarded(|| crash_leaf_inner(stats, &dir, &dir2, leaf, cfg));
    if let Err(p) = res {
        env.stats.violation(Violation {
            property: cfg.property.to_string(),
            signature: "panic-in-history".into(),
            what: p,
            case: json!({"engine":"crash","policy":cfg.policy,"seed_name":leaf.seed.name,"seed_ops":leaf.seed.ops,"ops":leaf.ops}),
        });
    }
}

fn crash_leaf_inner(stats: &mut Stats, dir: &Path, dir2: &Path, leaf: &Leaf, cfg: &CrashCfg) {
    // ---- 0. optionally: start from the (cut) image the seed leaves
    let mut pre_image: Option<Image> = None;
    if let Some(cut) = cfg.pre_cut_last_file {
        let mut r0 = match Run::start(dir, cfg.policy, cfg.hash_seed, false, default_names()) {
            Ok(r) => r,
            Err(_) => {
                stats.diverged += 1;
                return;
            }
        };
        for op in &leaf.seed.ops {
            let rec = r0.step(op);
            if rec.got != rec.expected {
                stats.diverged += 1;
                return;
            }
        }
        drop(r0);
        let mut img = read_image(dir);
        let Some(last) = img.keys().next_back().cloned() else { return };
        let f = img.get_mut(&last).unwrap();
        if cut >= f.len() {
            return;
        }
        f.truncate(cut);
        set_image(dir, &img);
        pre_image = Some(img);
    }
    // ---- 1. run the history with the trace on
    let mut run = match Run::start(dir, cfg.policy, cfg.hash_seed, true, default_names()) {
        Ok(r) => r,
        Err(_) => {
            if pre_image.is_some() {
                stats.count("pre_cut_directories_refused_by_open", 1);
            } else {
                stats.diverged += 1;
            }
            return;
        }
    };
    if pre_image.is_some() {
        stats.count("pre_cut_directories_opened", 1);
        run.model = obs_to_model(&run.subject.observe());
        run.resolver.uniq = 7000;
    }
    let mut hist = Hist {
        cops: vec![],
        outcomes: vec![],
        events: vec![],
        states: vec![run.model.clone()],
        batches: vec![],
        truncs: vec![],
        attr: vec![],
        entry_starts: Default::default(),
    };
    let seed_len = if pre_image.is_some() { 0 } else { leaf.seed.ops.len() };
    let all_ops: Vec<&Op> = if pre_image.is_some() { leaf.ops.to_vec() } else { leaf.seed.ops.iter().chain(leaf.ops.iter().copied()).collect() };
    let open_events = std::mem::take(&mut run.open_events);
    // sims[k] = simulation state before op k
    let mut sim = match &pre_image {
        Some(img) => Sim::from_image(img),
        None => Sim::default(),
    };
    let sim_before_open = sim.clone();
    for e in &open_events {
        sim.apply(e, None);
    }
    let mut sims: Vec<Sim> = vec![];
    for op in &all_ops {
        sims.push(sim.clone());
        let rec = run.step(op);
        stats.transitions += 1;
        if rec.got != rec.expected || matches!(rec.got, Outcome::Err(ErrKind::Io(_))) {
            // not this engine's question (C05 / C01 decide conformance)
            stats.diverged += 1;
            return;
        }
        for e in &rec.events {
            sim.apply(e, None);
        }
        if let (COp::Append { q, payloads, .. }, Outcome::Appended(Some(last))) = (&rec.cop, &rec.got) {
            if payloads.len() >= 2 {
                let first = last + 1 - payloads.len() as u64;
                hist.batches.push((
                    q.clone(),
                    payloads
                        .iter()
                        .enumerate()
                        .map(|(i, p)| (first + i as u64, p.to_vec()))
                        .collect(),
                ));
            }
        }
        if let COp::Trunc { q, pos } = &rec.cop {
            hist.truncs.push((q.clone(), *pos));
        }
        for e in &rec.events {
            if let Event::BlockWrite { file_number, len, head, .. } = e {
                if *len >= 7 && (head[6] == 1 || head[6] == 2) {
                    hist.entry_starts.insert(*file_number);
                }
            }
        }
        if let (COp::Append { q, payloads, .. }, Outcome::Appended(Some(last))) = (&rec.cop, &rec.got) {
            let first_bw = rec.events.iter().find_map(|e| match e {
                Event::BlockWrite { file_number, offset, len, .. } => Some((*file_number, *offset == 0 && *len >= 7)),
                _ => None,
            });
            if let Some(fb) = first_bw {
                let first = last + 1 - payloads.len() as u64;
                for (i, p) in payloads.iter().enumerate() {
                    hist.attr.push(((q.clone(), first + i as u64, p.to_vec()), fb));
                }
            }
        }
        hist.cops.push(rec.cop);
        hist.outcomes.push(rec.got);
        hist.events.push(rec.events);
        hist.states.push(run.model.clone());
    }
    // machinery self-check: the trace must explain the directory content
    let real = read_image(dir);
    if real != sim.os {
        stats.count("TRACE_DOES_NOT_EXPLAIN_DIRECTORY", 1);
        return;
    }
    drop(run);
    // ---- 2. crash points
    let mut targets: Vec<usize> = vec![];
    for k in 0..all_ops.len() {
        let heavy = if k < seed_len {
            false
        } else {
            k - seed_len >= leaf.heavy_from
        };
        if heavy {
            targets.push(k);
        }
    }
    if cfg.initial_open && leaf.heavy_seed && seed_len == 0 {
        let ctx = Ctx { cfg, leaf, dir2, hist: &hist, op_index: usize::MAX };
        crash_points_of(stats, &ctx, &sim_before_open, &open_events);
    }
    for k in targets {
        let ctx = Ctx { cfg, leaf, dir2, hist: &hist, op_index: k };
        let before = stats.evaluations;
        crash_points_of(stats, &ctx, &sims[k], &hist.events[k]);
        let n = stats.evaluations - before;
        if n > 40 {
            stats.sample(|| json!({"engine": "crash", "policy": cfg.policy.name(), "power_loss": cfg.power_loss, "seed": leaf.seed.name,
                "ops": leaf.ops.iter().map(|o| o.short()).collect::<Vec<_>>(), "crashed_op": hist.cops[k].to_json(),
                "fs_effects_of_that_op": hist.events[k].iter().filter(|e| Sim::is_mutation(e)).map(short_event).collect::<Vec<_>>(),
                "images_recovered_incl_second_crash": n}));
        }
    }
}

fn byte_cuts(len: usize) -> Vec<usize> {
    if len <= 1 {
        return vec![];
    }
    if TINY || len <= 512 {
        return (1..len).collect();
    }
    let mut v: BTreeSet<usize> = BTreeSet::new();
    for c in 1..=64.min(len - 1) {
        v.insert(c);
    }
    for c in (len.saturating_sub(64)).max(1)..len {
        v.insert(c);
    }
    let mut c = 4096;
    while c < len {
        v.insert(c);
        c += 4096;
    }
    // around block boundaries of the write (writes start block-aligned or not; take both)
    let mut b = BLOCK;
    while b < len + BLOCK {
        for d in [b.wrapping_sub(8), b.wrapping_sub(7), b.wrapping_sub(1), b, b + 1, b + 6, b + 7, b + 8] {
            if d >= 1 && d < len {
                v.insert(d);
            }
        }
        b += BLOCK;
    }
    v.into_iter().collect()
}

fn crash_points_of(stats: &mut Stats, ctx: &Ctx, before: &Sim, events: &[Event]) {
    let mut sim = before.clone();
    // boundary before the op
    eval_point(stats, ctx, &sim, json!({"after_events": 0, "cut": null}), false);
    for (j, e) in events.iter().enumerate() {
        if !Sim::is_mutation(e) {
            sim.apply(e, None);
            continue;
        }
        if let Event::Write { data, offset, name } = e {
            for c in byte_cuts(data.len()) {
                let mut s = sim.clone();
                s.apply(e, Some(c));
                // in-file offsets adjacent to block boundaries are not special for the image
                let _ = (offset, name);
                eval_point(stats, ctx, &s, json!({"after_events": j, "cut_bytes_of_next_write": c, "write_len": data.len()}), false);
            }
        }
        sim.apply(e, None);
        let structural = !matches!(e, Event::Write { .. });
        eval_point(stats, ctx, &sim, json!({"after_events": j + 1, "event": format!("{:?}", short_event(e))}), structural);
    }
}

fn short_event(e: &Event) -> String {
    match e {
        Event::Write { name, offset, data } => format!("write({},{},{}B)", name, offset, data.len()),
        other => format!("{:?}", other),
    }
}

fn eval_point(stats: &mut Stats, ctx: &Ctx, sim: &Sim, point: serde_json::Value, structural: bool) {
    if ctx.cfg.power_loss {
        let mut capped = false;
        let images = sim.power_loss_images(if TINY { 1024 } else { 64 }, &mut capped);
        if capped {
            stats.count("power_loss_image_cap_hit", 1);
        }
        for img in images {
            eval_image(stats, ctx, &img, &point, structural, 0);
        }
    } else {
        eval_image(stats, ctx, &sim.os, &point, structural, 0);
    }
}

fn recover(dir: &Path, image: &Image, cfg: &CrashCfg, trace: bool) -> Result<(mrecordlog::MultiRecordLog, Vec<Event>), String> {
    set_image(dir, image);
    reset_hooks(cfg.hash_seed, trace);
    vh::set_tick_budget(200_000);
    let res = guarded(|| open_log(dir, cfg.policy));
    vh::set_tick_budget(BIG_TICKS);
    let events = if trace { vh::trace_take() } else { vec![] };
    vh::trace_stop();
    match res {
        Ok(Ok(log)) => Ok((log, events)),
        Ok(Err(e)) => Err(format!("open returned {:?}", e)),
        Err(p) => Err(p),
    }
}

fn eval_image(stats: &mut Stats, ctx: &Ctx, image: &Image, point: &serde_json::Value, structural: bool, level: usize) {
    let cfg = ctx.cfg;
    stats.evaluations += 1;
    stats.transitions += 1;
    let hist = ctx.hist;
    let (log, rec_events) = match recover(ctx.dir2, image, cfg, (cfg.second_crash && level == 0) || cfg.oracle == Oracle::C06) {
        Ok(x) => x,
        Err(e) => {
            stats.violation(Violation {
                property: cfg.property.into(),
                signature: if level == 0 { "recovery-failed".into() } else { "recovery-failed-after-second-crash".into() },
                what: format!("recovery of the crash image failed: {}", e),
                case: case_json(ctx, point, image),
            });
            return;
        }
    };
    let r = match guarded(|| observe(&log)) {
        Ok(r) => r,
        Err(p) => {
            stats.violation(Violation { property: cfg.property.into(), signature: "panic-after-recovery".into(), what: p, case: case_json(ctx, point, image) });
            return;
        }
    };
    drop(log);
    stats.state(&(hash_of(&r), image.keys().cloned().collect::<Vec<_>>()));
    // ---- oracle
    let n_done = if ctx.op_index == usize::MAX { 0 } else { ctx.op_index }; // ops completed before the crashed one
    let hi = if ctx.op_index == usize::MAX { 0 } else { ctx.op_index + 1 };
    let mut matched: Option<String> = None;
    match cfg.oracle {
        Oracle::C02 => {
            matched = allowed(&r, &hist.states, &hist.cops, n_done, hi);
            stats.nontrivial(&(hash_of(&r), matched.clone(), ctx.op_index, image.len(), level));
            if matched.is_none() {
                stats.violation(Violation {
                    property: cfg.property.into(),
                    signature: if level == 0 { "recovered-state-not-allowed".into() } else { "state-not-allowed-after-second-crash".into() },
                    what: format!("recovered {} which is neither the state before the in-flight op {} nor after it {} (nor a partial truncate/delete)", obs_summary(&r), obs_summary(&model_obs(&hist.states[n_done])), obs_summary(&model_obs(&hist.states[hi]))),
                    case: case_json(ctx, point, image),
                });
                return;
            }
        }
        Oracle::C03 => {
            // crash inside op hi (or at its boundaries): ops 1..n_done completed
            let at_end_boundary = point.get("after_events").and_then(|v| v.as_u64()) == Some(hist.events.get(ctx.op_index).map(|e| e.len()).unwrap_or(0) as u64) && point.get("cut_bytes_of_next_write").is_none();
            let completed = if at_end_boundary && ctx.op_index != usize::MAX { hi } else { n_done };
            let p = persisted_point(cfg.policy, &hist.cops, &hist.outcomes, completed, cfg.power_loss);
            matched = allowed(&r, &hist.states, &hist.cops, p, hi);
            stats.nontrivial(&(p, hi, cfg.policy.name(), matched.clone()));
            if matched.is_none() {
                stats.violation(Violation {
                    property: cfg.property.into(),
                    signature: if cfg.power_loss { "persisted-state-lost-on-power-loss".into() } else { "persisted-state-lost-on-crash".into() },
                    what: format!("policy {}: {} ops had been persisted ({} model), but recovery yields {} which is none of the states S_{}..S_{} (last persisted state: {})", cfg.policy.name(), p, if cfg.power_loss { "power-loss" } else { "process-crash" }, obs_summary(&r), p, hi, obs_summary(&model_obs(&hist.states[p]))),
                    case: case_json(ctx, point, image),
                });
                return;
            }
        }
        Oracle::C12 => {
            for (q, recs) in &hist.batches {
                let Some(rq) = r.get(q) else { continue };
                let present: Vec<bool> = recs.iter().map(|(p, b)| rq.recs.iter().any(|x| x.0 == *p && x.1 == *b)).collect();
                let n_present = present.iter().filter(|x| **x).count();
                if n_present == 0 || n_present == recs.len() {
                    continue;
                }
                stats.count("batches_partially_present_(checked_against_truncations)", 1);
                // must be a suffix, and the dropped head must be covered by a truncation
                let first_present = present.iter().position(|x| *x).unwrap();
                let is_suffix = present[first_present..].iter().all(|x| *x);
                // a missing tail (first_present == 0) is never explained by a truncation
                let covered = first_present > 0 && {
                    let last_dropped = recs[first_present - 1].0;
                    hist.truncs.iter().any(|(tq, tp)| tq == q && *tp >= last_dropped)
                };
                if !is_suffix || !covered {
                    stats.violation(Violation {
                        property: cfg.property.into(),
                        signature: "batch-torn-by-crash".into(),
                        what: format!("batch at positions {:?} of queue {} recovered partially: present = {:?} (no truncation explains the missing part)", recs.iter().map(|r| r.0).collect::<Vec<_>>(), q, present),
                        case: case_json(ctx, point, image),
                    });
                    return;
                }
            }
            stats.nontrivial(&(hist.batches.len(), r.len(), point.to_string()));
        }
        Oracle::C06 => {
            let mut files: Vec<u64> = list_dir(ctx.dir2).iter().filter_map(|f| wal_number(&f.0)).collect();
            files.sort();
            stats.count("c06_checks_after_crash_recovery", 1);
            if files.is_empty() || files.windows(2).any(|w| w[1] != w[0] + 1) {
                stats.violation(Violation { property: cfg.property.into(), signature: "not-contiguous-after-recovery".into(), what: format!("after crash recovery the WAL files are {:?}", files), case: case_json(ctx, point, image) });
                return;
            }
            // retained records (as recovered) and the files they were written into
            let mut oldest: Option<(u64, bool)> = None;
            let mut all_attr: Vec<(u64, bool)> = vec![];
            for (q, qo) in &r {
                for (p, b) in &qo.recs {
                    // the latest append of that (queue, position, payload)
                    if let Some((_, fb)) = hist.attr.iter().rev().find(|(k, _)| k.0 == *q && k.1 == *p && k.2 == *b) {
                        all_attr.push(*fb);
                        if oldest.map(|o| fb.0 < o.0).unwrap_or(true) {
                            oldest = Some(*fb);
                        }
                    }
                }
            }
            let last = *files.last().unwrap();
            // "the file that was being written when the call began": where the replay ended (the
            // writer resumes there) - the file of the last full block the recovery read before it
            // wrote anything. (Recovery's own GC entries may then roll over into the next file.)
            let mut begin_file = last;
            for e in &rec_events {
                match e {
                    Event::Read { name, len, .. } if *len == BLOCK => {
                        if let Some(n) = wal_number(name) {
                            begin_file = n;
                        }
                    }
                    Event::Write { .. } | Event::BlockWrite { .. } => break,
                    _ => {}
                }
            }
            let bound = oldest.map(|o| o.0).unwrap_or(u64::MAX).min(begin_file);
            let excess: Vec<u64> = files.iter().copied().filter(|f| *f < bound).collect();
            stats.nontrivial(&(files.clone(), oldest, ctx.op_index));
            if !excess.is_empty() {
                let d4 = excess.len() == 1 && all_attr.iter().any(|a| a.0 == excess[0] + 1 && a.1) && all_attr.iter().all(|a| a.0 > excess[0]);
                // D9: the crash interrupted a GC pass after it had unlinked the file holding the head
                // of a multi-file entry; every excess file holds nothing but continuation frames of
                // that entry (no entry starts in it, per the harness's own frame events)
                let d9 = !d4 && excess.iter().all(|f| !hist.entry_starts.contains(f));
                stats.violation(Violation {
                    property: cfg.property.into(),
                    signature: if d4 { "D4-cursor-at-file-end".into() } else if d9 { "D9-continuation-only-file-after-interrupted-gc".into() } else { "excess-file-after-recovery".into() },
                    what: format!("after crash recovery the WAL files are {:?}, but the oldest retained record was written into file {:?} and the replay ended in file {} (the file being written when open began): file(s) {:?} should have been reclaimed by open", files, oldest.map(|o| o.0), begin_file, excess),
                    case: case_json(ctx, point, image),
                });
                if !d4 && !d9 {
                    return;
                }
            }
            matched = Some("files ok".into());
        }
        Oracle::C04 => {
            // highest position appended or truncated-to by completed ops, per live incarnation
            let mut hi_pos: BTreeMap<String, Option<u64>> = BTreeMap::new();
            for k in 0..n_done {
                match (&hist.cops[k], &hist.outcomes[k]) {
                    (COp::Create(q), Outcome::Created) => { hi_pos.insert(q.clone(), None); }
                    (COp::Delete(q), Outcome::Deleted) => { hi_pos.remove(q); }
                    (COp::Append { q, .. }, Outcome::Appended(Some(l))) => { hi_pos.insert(q.clone(), Some(*l)); }
                    (COp::Trunc { q, pos }, Outcome::Truncated(_)) => {
                        let h = hi_pos.get(q).copied().flatten();
                        hi_pos.insert(q.clone(), Some(h.map(|h| h.max(*pos)).unwrap_or(*pos)));
                    }
                    _ => {}
                }
            }
            for (q, h) in &hi_pos {
                // the in-flight op may be deleting this queue
                let inflight_delete = ctx.op_index != usize::MAX && matches!(&hist.cops[ctx.op_index], COp::Delete(dq) if dq == q);
                match r.get(q) {
                    None => {
                        if !inflight_delete {
                            stats.violation(Violation { property: cfg.property.into(), signature: "queue-lost-by-crash".into(), what: format!("queue {} (positions up to {:?} handed out) does not exist after crash recovery", q, h), case: case_json(ctx, point, image) });
                            return;
                        }
                    }
                    Some(rq) => {
                        if rq.last_pos < *h {
                            stats.violation(Violation { property: cfg.property.into(), signature: "position-regressed-after-crash".into(), what: format!("queue {}: last position after crash recovery {:?} is below {:?}, which had been appended or truncated-to by completed calls: it would be handed out again", q, rq.last_pos, h), case: case_json(ctx, point, image) });
                            return;
                        }
                    }
                }
            }
            stats.nontrivial(&(hash_of(&r), point.to_string().len(), ctx.op_index));
            matched = Some("positions ok".into());
        }
    }
    let _ = matched;
    // ---- second crash: inside the recovery's own writes
    if cfg.second_crash && level == 0 && rec_events.iter().any(Sim::is_mutation) {
        stats.count("recoveries_with_writes_(second_crash_enumerated)", 1);
        let mut sim = Sim::default();
        sim.os = image.clone();
        for (j, e) in rec_events.iter().enumerate() {
            if !Sim::is_mutation(e) {
                continue;
            }
            if let Event::Write { data, .. } = e {
                for c in byte_cuts(data.len()) {
                    let mut s = sim.clone();
                    s.apply(e, Some(c));
                    let pt = json!({"first_crash": point, "second_crash_after_recovery_events": j, "cut_bytes_of_next_write": c});
                    eval_image(stats, ctx, &s.os, &pt, false, 1);
                }
            }
            sim.apply(e, None);
            let pt = json!({"first_crash": point, "second_crash_after_recovery_events": j + 1});
            eval_image(stats, ctx, &sim.os, &pt, true, 1);
        }
    }
    // ---- continuation: the recovered log is fully usable
    let depth = if structural { cfg.cont_struct } else { cfg.cont_other };
    // (C03: under a policy that persists every call, what the continuation acknowledges has been
    // persisted, and the restart that ends it is then no different from a crash)
    let c03_cont = cfg.oracle == Oracle::C03 && cfg.policy.per_op_persist().is_some() && !cfg.power_loss;
    if depth == 0 || !(matches!(cfg.oracle, Oracle::C02 | Oracle::C04) || c03_cont) {
        return;
    }
    let alpha = cont_alphabet();
    let base = obs_to_model(&r);
    let n = alpha.len();
    let mut idx = vec![0usize; depth];
    'seqs: loop {
        // for depth 2, sequences whose first letter is k and second 0 also cover depth 1
        let ops: Vec<&Op> = idx.iter().map(|i| &alpha[*i]).collect();
        stats.count("continuations", 1);
        if let Err((sig, what)) = continuation(ctx, image, &base, &ops) {
            stats.violation(Violation {
                property: cfg.property.into(),
                signature: sig,
                what,
                case: {
                    let mut c = case_json(ctx, point, image);
                    c["continuation"] = json!(ops);
                    c
                },
            });
            return;
        }
        let mut k = depth;
        loop {
            if k == 0 {
                break 'seqs;
            }
            k -= 1;
            idx[k] += 1;
            if idx[k] < n {
                break;
            }
            idx[k] = 0;
        }
    }
}

fn continuation(ctx: &Ctx, image: &Image, base: &Model, ops: &[&Op]) -> Result<(), (String, String)> {
    let cfg = ctx.cfg;
    let (log, _) = recover(ctx.dir2, image, cfg, false).map_err(|e| ("recovery-not-deterministic".to_string(), e))?;
    let mut subject = Subject { dir: ctx.dir2.to_path_buf(), log: Some(log), policy: cfg.policy, op_count: 0 };
    let mut model = base.clone();
    let mut resolver = Resolver::new(default_names());
    resolver.uniq = 5000;
    let res = guarded(|| {
        let mut all: Vec<&Op> = ops.to_vec();
        let reopen = Op::Reopen;
        all.push(&reopen);
        for (i, op) in all.iter().enumerate() {
            let cop = resolver.resolve(op, &model);
            let expected = model.apply(&cop);
            let (got, _) = subject.apply(&cop);
            if got != expected {
                return Err((
                    "continuation-outcome".to_string(),
                    format!("after crash recovery (state {}), continuation op {} {} returned {:?}, a log that never crashed returns {:?}", obs_summary(&model_obs(base)), i, op.short(), got, expected),
                ));
            }
            if matches!(got, Outcome::Reopened) {
                let obs = subject.observe();
                let want = model_obs(&model);
                if obs != want {
                    return Err((
                        "continuation-state".to_string(),
                        format!("after crash recovery (state {}), continuation {:?} + restart yields {} instead of {}", obs_summary(&model_obs(base)), ops.iter().map(|o| o.short()).collect::<Vec<_>>(), obs_summary(&obs), obs_summary(&want)),
                    ));
                }
            }
        }
        Ok(())
    });
    match res {
        Ok(r) => r,
        Err(p) => Err(("continuation-panic".to_string(), p)),
    }
}

// ---------------------------------------------------------------------------------------------
// C18, crash variant: a crash in the middle of a call addressed to ANOTHER queue must leave q
// exactly as a crash at the corresponding op boundary of the projected history does - right
// after recovery and through further appends and restarts.

fn q_view(obs: &Obs, q: &str) -> Option<(Vec<(u64, Vec<u8>)>, Option<u64>)> {
    obs.get(q).map(|o| (o.recs.clone(), o.last_pos))
}

/// Recovers `image`, then appends to q and restarts twice; returns q's view after each step.
fn recover_and_continue(dir: &Path, image: &Image, q: &str, cfg: &CrashCfg) -> Result<Vec<Option<(Vec<(u64, Vec<u8>)>, Option<u64>)>>, String> {
    let (log, _) = recover(dir, image, cfg, false)?;
    let mut views = vec![];
    let mut subject = Subject { dir: dir.to_path_buf(), log: Some(log), policy: cfg.policy, op_count: 0 };
    guarded(|| {
        views.push(q_view(&subject.observe(), q));
        for round in 0..2u8 {
            if subject.log().queue_exists(q) {
                let payload = crate::ops::payload(9000 + round as u32, 3);
                let _ = subject.apply(&COp::Append { q: q.to_string(), pos: None, payloads: vec![payload] });
            }
            views.push(q_view(&subject.observe(), q));
            let _ = subject.apply(&COp::Reopen);
            if subject.log.is_none() {
                return Err("restart failed".to_string());
            }
            views.push(q_view(&subject.observe(), q));
        }
        Ok(())
    })
    .map_err(|p| p)??;
    Ok(views)
}

pub fn c18_crash_leaf(env: &mut Env, leaf: &Leaf) {
    let cfg = CrashCfg { property: "C18", oracle: Oracle::C02, policy: PolicyCfg::Default, hash_seed: 0, power_loss: false, second_crash: false, cont_struct: 0, cont_other: 0, initial_open: false, pre_cut_last_file: None };
    // resolve ops against the model
    let mut model = Model::default();
    let mut resolver = Resolver::new(default_names());
    let mut cops = vec![];
    for op in leaf.seed.ops.iter().chain(leaf.ops.iter().copied()) {
        let cop = resolver.resolve(op, &model);
        model.apply(&cop);
        cops.push(cop);
    }
    let Some(last) = cops.last().cloned() else { return };
    let Some(x) = last.queue().map(|s| s.to_string()) else { return };
    let dir = env.scratch.path.clone();
    let dir2 = env.scratch2.path.clone();
    // full run with trace, keeping the simulation state before the last op
    env.scratch.reset();
    let full = guarded(|| -> Option<(Sim, Vec<Event>)> {
        let mut run = Run::start(&dir, cfg.policy, 0, true, default_names()).ok()?;
        let mut sim = Sim::default();
        for e in &std::mem::take(&mut run.open_events) {
            sim.apply(e, None);
        }
        let n = cops.len();
        let mut before = sim.clone();
        let mut last_events = vec![];
        for (k, cop) in cops.iter().enumerate() {
            if k + 1 == n {
                before = sim.clone();
            }
            let rec = run.step_concrete(cop.clone());
            if matches!(rec.got, Outcome::Err(ErrKind::Io(_))) {
                return None;
            }
            for e in &rec.events {
                sim.apply(e, None);
            }
            if k + 1 == n {
                last_events = rec.events;
            }
        }
        Some((before, last_events))
    });
    let Ok(Some((before, last_events))) = full else {
        env.stats.diverged += 1;
        return;
    };
    env.stats.traces += 1;
    let names = default_names();
    for q in [&names[QA as usize], &names[QB as usize]] {
        if *q == x {
            continue;
        }
        // projected history: calls addressed to q and restarts, without the last op (which is
        // addressed to x); crash at the op boundary
        let proj: Vec<&COp> = cops[..cops.len() - 1].iter().filter(|c| c.queue().map(|n| n == q).unwrap_or(true)).collect();
        if !proj.iter().any(|c| c.queue().is_some()) {
            continue;
        }
        env.scratch2.reset();
        let base = guarded(|| -> Result<Vec<_>, String> {
            reset_hooks(0, false);
            let mut subject = Subject::open(&dir2, cfg.policy).map_err(|e| e.to_string())?;
            for c in &proj {
                subject.apply(c);
            }
            let image = read_image(&dir2);
            drop(subject);
            recover_and_continue(&dir2, &image, q, &cfg)
        });
        let Ok(Ok(base)) = base else {
            env.stats.diverged += 1;
            continue;
        };
        env.stats.traces += 1;
        // every crash point inside the last op of the full history
        let mut sim = before.clone();
        let mut points: Vec<(Image, serde_json::Value)> = vec![(sim.os.clone(), json!({"after_events": 0}))];
        for (j, e) in last_events.iter().enumerate() {
            if !Sim::is_mutation(e) {
                continue;
            }
            if let Event::Write { data, .. } = e {
                for c in byte_cuts(data.len()) {
                    let mut s = sim.clone();
                    s.apply(e, Some(c));
                    points.push((s.os.clone(), json!({"after_events": j, "cut_bytes_of_next_write": c})));
                }
            }
            sim.apply(e, None);
            points.push((sim.os.clone(), json!({"after_events": j + 1})));
        }
        for (image, point) in points {
            env.stats.evaluations += 1;
            env.stats.transitions += 5;
            let got = recover_and_continue(&dir2, &image, q, &cfg);
            env.stats.nontrivial(&(hash_of(&image), q.clone()));
            let bad = match got {
                Ok(views) if views == base => None,
                Ok(views) => {
                    let i = views.iter().zip(base.iter()).position(|(a, b)| a != b).unwrap_or(0);
                    let show = |v: &Option<(Vec<(u64, Vec<u8>)>, Option<u64>)>| v.as_ref().map(|(r, l)| (r.iter().map(|x| x.0).collect::<Vec<_>>(), *l));
                    Some(format!("a crash inside {} (addressed to queue {}) leaves queue {} as {:?} at step {} of [recover, append, restart, append, restart]; in the history without the calls addressed to other queues, crashed at the same boundary, it is {:?}", last.to_json(), x, q, show(&views[i]), i, show(&base[i])))
                }
                Err(e) => Some(format!("recovery/continuation failed after a crash inside {}: {}", last.to_json(), e)),
            };
            if let Some(what) = bad {
                env.stats.violation(Violation {
                    property: "C18".into(),
                    signature: "queue-affected-by-crash-in-other-queues-call".into(),
                    what,
                    case: json!({"engine":"c18-crash","seed_name":leaf.seed.name,"seed_ops":leaf.seed.ops,"ops":leaf.ops,"projected_on":q,"crash_point":point}),
                });
                return;
            }
        }
    }
}

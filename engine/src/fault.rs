//! FAULT engine (C11): every I/O error position during recovery.
use std::path::Path;

use mrecordlog::error::ReadRecordError;
use mrecordlog::verif_hooks as vh;
use mrecordlog::verif_hooks::{CallKind, Fault};
use serde_json::json;

use crate::crash::Image;
use crate::exec::*;
use crate::model::*;
use crate::ops::*;
use crate::report::*;
use crate::seq::*;

const KINDS: [(CallKind, &str); 3] = [
    (CallKind::ReadDir, "read_dir"),
    (CallKind::Open, "open"),
    (CallKind::Read, "read"),
];

fn error_kinds() -> Vec<(std::io::ErrorKind, &'static str)> {
    vec![
        (std::io::ErrorKind::PermissionDenied, "PermissionDenied"),
        (std::io::ErrorKind::Other, "Other(EIO)"),
        (std::io::ErrorKind::NotFound, "NotFound"),
        (std::io::ErrorKind::TimedOut, "TimedOut"),
    ]
}

/// Builds the image left by a history (clean drop), optionally damaging one byte so that block
/// skipping is on the recovery path.
pub fn image_of(env: &mut Env, leaf: &Leaf) -> Option<(Image, Obs)> {
    env.scratch.reset();
    let dir = env.scratch.path.clone();
    let res = guarded(|| {
        let mut run = Run::start(&dir, PolicyCfg::Default, 0, false, default_names()).ok()?;
        for op in leaf.seed.ops.iter().chain(leaf.ops.iter().copied()) {
            let rec = run.step(op);
            if rec.got != rec.expected {
                return None;
            }
        }
        let obs = run.subject.observe();
        drop(run);
        Some((read_image(&dir), obs))
    });
    res.ok().flatten()
}

/// `variant`: 0 = the image as written; 1 = one byte flipped in the second block of the first file
/// (block skipping on the recovery path); 2 / 3 = first file cut to 0 / half a block (a real short
/// read at the first block; when open reports it there is nothing more to ask); 4 = the image
/// replaced by a single empty `wal-0` (the state a crash between creating and sizing the very
/// first file leaves).
pub fn fault_leaf(env: &mut Env, leaf: &Leaf, variant: u8) {
    let damage_variant = variant == 1;
    let Some((mut image, _obs)) = image_of(env, leaf) else {
        env.stats.diverged += 1;
        return;
    };
    env.stats.traces += 1;
    if damage_variant {
        // flip one byte in the second block of the first file, so that block skipping is on
        // the path of recovery
        if let Some((_, bytes)) = image.iter_mut().next() {
            if bytes.len() > BLOCK + 3 {
                bytes[BLOCK + 3] ^= 0x5a;
            }
        }
    }
    match variant {
        2 | 3 => {
            if let Some((_, bytes)) = image.iter_mut().next() {
                bytes.truncate(if variant == 2 { 0 } else { BLOCK / 2 });
            }
        }
        4 => {
            let first = image.keys().next().cloned();
            if let Some(first) = first {
                image.clear();
                image.insert(first, vec![]);
            }
        }
        _ => {}
    }
    let dir = env.scratch2.path.clone();
    // fault-free run: count the calls
    set_image(&dir, &image);
    reset_hooks(0, false);
    let ok = guarded(|| open_log(&dir, PolicyCfg::Default).map(|l| observe(&l)));
    let counts = vh::call_counts();
    let base_ticks = vh::ticks();
    let baseline = match ok {
        Ok(Ok(obs)) => obs,
        Ok(Err(ReadRecordError::IoError(_))) if variant >= 2 => {
            // the short first file is itself reported as an I/O error
            env.stats.count("short_first_file_reported_as_io_error", 1);
            return;
        }
        _ => {
            env.stats.diverged += 1;
            return;
        }
    };
    if variant >= 2 {
        env.stats.count("short_first_file_accepted_(faults_injected_on_top)", 1);
    }
    env.stats.state(&(hash_of(&baseline), image.len(), variant));
    let budget = base_ticks * 10 + 1000;
    env.stats.sample(|| json!({"engine": "fault", "seed": leaf.seed.name, "ops": leaf.ops.iter().map(|o| o.short()).collect::<Vec<_>>(), "damaged_block": damage_variant, "image_variant": variant, "wal_files": image.len(),
        "recovery_calls": {"read_dir": counts[CallKind::ReadDir as usize], "open": counts[CallKind::Open as usize], "read": counts[CallKind::Read as usize]}, "fault_free_ticks": base_ticks}));
    for (kind, kind_name) in KINDS {
        let n_calls = counts[kind as usize];
        for nth in 0..n_calls {
            for forever in [false, true] {
                let mut kinds = error_kinds();
                if matches!(kind, CallKind::Read) && nth == 0 && !forever {
                    // The first block of the oldest file is the one place where the crate reports a
                    // short read as an I/O error (later short files mean "no more blocks").
                    kinds.push((std::io::ErrorKind::UnexpectedEof, "UnexpectedEof(first read only)"));
                }
                for (ek, ek_name) in kinds {
                    env.stats.evaluations += 1;
                    env.stats.transitions += 1;
                    set_image(&dir, &image);
                    reset_hooks(0, false);
                    vh::set_fault(Some(Fault { kind: Some(kind), nth, forever, error: ek }));
                    vh::set_tick_budget(budget);
                    let res = guarded(|| open_log(&dir, PolicyCfg::Default).map(|_| ()));
                    let fired = vh::faults_fired();
                    vh::set_fault(None);
                    vh::set_tick_budget(BIG_TICKS);
                    env.stats.nontrivial(&(kind_name, nth, forever, ek_name, image.len(), variant, hash_of(&baseline)));
                    let case = json!({"engine":"fault","seed_name":leaf.seed.name,"seed_ops":leaf.seed.ops,"ops":leaf.ops,"damaged_block":damage_variant,"image_variant":variant,
                        "fault":{"call_kind":kind_name,"nth":nth,"mode": if forever {"forever"} else {"once"},"error":ek_name},"files":image.len(),"fault_free_ticks":base_ticks});
                    if fired == 0 {
                        env.stats.count("plans_that_never_fired", 1);
                        continue;
                    }
                    let verdict: Option<(&str, String)> = match res {
                        Err(p) if p.contains("livelock") => Some(("recovery-does-not-terminate", format!("{} #{} failing {} with {}: open exceeded {} ticks (fault-free recovery takes {})", kind_name, nth, if forever {"forever"} else {"once"}, ek_name, budget, base_ticks))),
                        Err(p) => Some(("panic-on-io-error", format!("{} #{} failing with {}: {}", kind_name, nth, ek_name, p))),
                        Ok(Ok(())) => Some(("io-error-swallowed", format!("{} #{} failed {} with {} during recovery, yet open returned Ok (a log built from a partially read WAL)", kind_name, nth, if forever {"forever"} else {"once"}, ek_name))),
                        Ok(Err(ReadRecordError::IoError(_))) => None,
                        Ok(Err(ReadRecordError::Corruption)) => Some(("io-error-reported-as-corruption", format!("{} #{} failed with {} during recovery, open reported Corruption instead of an I/O error", kind_name, nth, ek_name))),
                    };
                    env.stats.outcome(match &verdict { None => "Err(IoError)", Some((s, _)) => s });
                    if let Some((sig, what)) = verdict {
                        env.stats.violation(Violation { property: "C11".into(), signature: sig.into(), what, case });
                    }
                }
            }
        }
    }
}

pub fn _unused(_: &Path, _: &Model) {}

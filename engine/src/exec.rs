//! Running resolved ops on the real `MultiRecordLog`, and observing it.
use std::collections::BTreeMap;
use std::ops::Bound;
use std::path::{Path, PathBuf};
use std::sync::atomic::{AtomicUsize, Ordering};
use std::time::Duration;

use mrecordlog::error::{
    AppendError, CreateQueueError, DeleteQueueError, ReadRecordError, TruncateError,
};
use mrecordlog::verif_hooks as vh;
use mrecordlog::{MultiRecordLog, PersistAction, PersistPolicy};

use crate::model::{COp, ErrKind, Model, Outcome, MQ};

#[derive(Clone, Copy, Debug, PartialEq, Eq, Hash, serde::Serialize, serde::Deserialize)]
pub enum PolicyCfg {
    /// MultiRecordLog::open: Always(Flush)
    Default,
    AlwaysFlush,
    AlwaysFsync,
    DoNothing,
    /// OnDelay that never expires during the run
    DelayNeverFlush,
    DelayNeverFsync,
    /// OnDelay(1ns, Flush) with the clock advanced before every op: always expired
    DelayExpiredFlush,
    /// OnDelay(1ns, FlushAndFsync), always expired
    DelayExpiredFsync,
    /// OnDelay(1ns, Flush), clock advanced before every second op
    DelayAltFlush,
    /// as DelayAltFlush with the other parity
    DelayAltFlush1,
    /// OnDelay(1ns, Flush), clock advanced before every third op (phase 0, 1, 2): in any three
    /// consecutive calls the interval elapses before exactly one of them
    DelayMod3Flush0,
    DelayMod3Flush1,
    DelayMod3Flush2,
}

impl PolicyCfg {
    pub fn policy(self) -> PersistPolicy {
        let never = Duration::from_secs(1 << 30);
        let short = Duration::from_nanos(1);
        match self {
            PolicyCfg::Default | PolicyCfg::AlwaysFlush => {
                PersistPolicy::Always(PersistAction::Flush)
            }
            PolicyCfg::AlwaysFsync => PersistPolicy::Always(PersistAction::FlushAndFsync),
            PolicyCfg::DoNothing => PersistPolicy::DoNothing,
            PolicyCfg::DelayNeverFlush => PersistPolicy::OnDelay {
                interval: never,
                action: PersistAction::Flush,
            },
            PolicyCfg::DelayNeverFsync => PersistPolicy::OnDelay {
                interval: never,
                action: PersistAction::FlushAndFsync,
            },
            PolicyCfg::DelayExpiredFlush | PolicyCfg::DelayAltFlush | PolicyCfg::DelayAltFlush1 | PolicyCfg::DelayMod3Flush0 | PolicyCfg::DelayMod3Flush1 | PolicyCfg::DelayMod3Flush2 => PersistPolicy::OnDelay {
                interval: short,
                action: PersistAction::Flush,
            },
            PolicyCfg::DelayExpiredFsync => PersistPolicy::OnDelay {
                interval: short,
                action: PersistAction::FlushAndFsync,
            },
        }
    }
    /// What an append/truncate is guaranteed to have done on return: None, Some(false)=flushed,
    /// Some(true)=fsynced.
    pub fn per_op_persist(self) -> Option<bool> {
        match self {
            PolicyCfg::Default | PolicyCfg::AlwaysFlush | PolicyCfg::DelayExpiredFlush => {
                Some(false)
            }
            PolicyCfg::AlwaysFsync | PolicyCfg::DelayExpiredFsync => Some(true),
            _ => None,
        }
    }
    pub fn name(self) -> &'static str {
        match self {
            PolicyCfg::Default => "open()=Always(Flush)",
            PolicyCfg::AlwaysFlush => "Always(Flush)",
            PolicyCfg::AlwaysFsync => "Always(FlushAndFsync)",
            PolicyCfg::DoNothing => "DoNothing",
            PolicyCfg::DelayNeverFlush => "OnDelay(never,Flush)",
            PolicyCfg::DelayNeverFsync => "OnDelay(never,FlushAndFsync)",
            PolicyCfg::DelayExpiredFlush => "OnDelay(expired,Flush)",
            PolicyCfg::DelayExpiredFsync => "OnDelay(expired,FlushAndFsync)",
            PolicyCfg::DelayAltFlush => "OnDelay(alternating,Flush)",
            PolicyCfg::DelayAltFlush1 => "OnDelay(alternating from the 2nd op,Flush)",
            PolicyCfg::DelayMod3Flush0 => "OnDelay(elapsing before ops 0,3,6..,Flush)",
            PolicyCfg::DelayMod3Flush1 => "OnDelay(elapsing before ops 1,4,7..,Flush)",
            PolicyCfg::DelayMod3Flush2 => "OnDelay(elapsing before ops 2,5,8..,Flush)",
        }
    }
}

#[derive(Clone, Debug, PartialEq, Eq, Default, Hash)]
pub struct QObs {
    pub recs: Vec<(u64, Vec<u8>)>,
    pub last_pos: Option<u64>,
}
pub type Obs = BTreeMap<String, QObs>;

pub fn model_obs(model: &Model) -> Obs {
    model
        .queues
        .iter()
        .map(|(k, mq)| {
            (
                k.clone(),
                QObs {
                    recs: mq.recs.iter().map(|r| (r.0, r.1.to_vec())).collect(),
                    last_pos: mq.last_position(),
                },
            )
        })
        .collect()
}

pub fn obs_to_model(obs: &Obs) -> Model {
    let mut m = Model::default();
    for (k, q) in obs {
        m.queues.insert(
            k.clone(),
            MQ {
                recs: q
                    .recs
                    .iter()
                    .map(|r| (r.0, std::sync::Arc::from(r.1.clone())))
                    .collect(),
                next: q.last_pos.map(|p| p + 1).unwrap_or(0),
            },
        );
    }
    m
}

pub fn obs_summary(obs: &Obs) -> serde_json::Value {
    let mut m = serde_json::Map::new();
    for (k, q) in obs {
        let key = if k.len() > 40 {
            format!("<name of {} bytes>", k.len())
        } else {
            k.clone()
        };
        let recs: Vec<String> = q
            .recs
            .iter()
            .map(|r| {
                if r.1.len() <= 8 {
                    format!("{}:{}", r.0, crate::model::hex(&r.1))
                } else {
                    format!("{}:{}..({}B)", r.0, crate::model::hex(&r.1[..4]), r.1.len())
                }
            })
            .collect();
        m.insert(
            key,
            serde_json::json!({"records": recs, "last_position": q.last_pos}),
        );
    }
    serde_json::Value::Object(m)
}

pub fn observe(log: &MultiRecordLog) -> Obs {
    let mut names: Vec<String> = log.list_queues().map(|s| s.to_string()).collect();
    names.sort();
    let mut obs = Obs::new();
    for name in names {
        let recs: Vec<(u64, Vec<u8>)> = log
            .range(&name, ..)
            .expect("listed queue must exist")
            .map(|r| (r.position, r.payload.to_vec()))
            .collect();
        let last_pos = log.last_position(&name).expect("listed queue must exist");
        obs.insert(name, QObs { recs, last_pos });
    }
    obs
}

pub struct Subject {
    pub dir: PathBuf,
    pub log: Option<MultiRecordLog>,
    pub policy: PolicyCfg,
    pub op_count: u64,
}

pub fn open_log(dir: &Path, policy: PolicyCfg) -> Result<MultiRecordLog, ReadRecordError> {
    match policy {
        PolicyCfg::Default => MultiRecordLog::open(dir),
        p => MultiRecordLog::open_with_prefs(dir, p.policy()),
    }
}

fn io_kind(e: &std::io::Error) -> ErrKind {
    ErrKind::Io(format!("{:?}", e.kind()))
}

impl Subject {
    pub fn open(dir: &Path, policy: PolicyCfg) -> Result<Subject, ReadRecordError> {
        let log = open_log(dir, policy)?;
        Ok(Subject {
            dir: dir.to_path_buf(),
            log: Some(log),
            policy,
            op_count: 0,
        })
    }

    pub fn log(&self) -> &MultiRecordLog {
        self.log.as_ref().unwrap()
    }

    fn pre_op_clock(&mut self) {
        match self.policy {
            PolicyCfg::DelayExpiredFlush | PolicyCfg::DelayExpiredFsync => {
                vh::set_clock_ns(vh::clock_ns() + 10);
            }
            PolicyCfg::DelayAltFlush => {
                if self.op_count % 2 == 0 {
                    vh::set_clock_ns(vh::clock_ns() + 10);
                }
            }
            PolicyCfg::DelayAltFlush1 => {
                if self.op_count % 2 == 1 {
                    vh::set_clock_ns(vh::clock_ns() + 10);
                }
            }
            PolicyCfg::DelayMod3Flush0 | PolicyCfg::DelayMod3Flush1 | PolicyCfg::DelayMod3Flush2 => {
                let phase = match self.policy { PolicyCfg::DelayMod3Flush0 => 0, PolicyCfg::DelayMod3Flush1 => 1, _ => 2 };
                if self.op_count % 3 == phase {
                    vh::set_clock_ns(vh::clock_ns() + 10);
                }
            }
            _ => {}
        }
        self.op_count += 1;
    }

    /// Returns the outcome and the reported wal_bytes_written (where the call has one).
    pub fn apply(&mut self, op: &COp) -> (Outcome, Option<u64>) {
        self.pre_op_clock();
        let log = self.log.as_mut().unwrap();
        match op {
            COp::Create(q) if q.len() > 65535 => {
                // outside the API's domain: the crate refuses by panicking (before it has written
                // anything); an error would do as well; `Created` would not
                let r = std::panic::catch_unwind(std::panic::AssertUnwindSafe(|| log.create_queue(q)));
                match r {
                    Err(_) | Ok(Err(CreateQueueError::IoError(_))) => (Outcome::Err(ErrKind::NameTooLong), None),
                    Ok(Ok(o)) => (Outcome::Created, Some(o.wal_bytes_written)),
                    Ok(Err(CreateQueueError::AlreadyExists)) => (Outcome::Err(ErrKind::AlreadyExists), None),
                }
            }
            COp::Create(q) => match log.create_queue(q) {
                Ok(o) => (Outcome::Created, Some(o.wal_bytes_written)),
                Err(CreateQueueError::AlreadyExists) => (Outcome::Err(ErrKind::AlreadyExists), None),
                Err(CreateQueueError::IoError(e)) => (Outcome::Err(io_kind(&e)), None),
            },
            COp::Delete(q) => match log.delete_queue(q) {
                Ok(o) => (Outcome::Deleted, Some(o.wal_bytes_written)),
                Err(DeleteQueueError::MissingQueue(_)) => {
                    (Outcome::Err(ErrKind::MissingQueue), None)
                }
                Err(DeleteQueueError::IoError(e)) => (Outcome::Err(io_kind(&e)), None),
            },
            COp::Append { q, pos, payloads } => {
                // The batch is an `Iterator<Item = impl Buf>`: the same payloads are handed over in
                // three shapes, by turns - exact size hint (slice iterator / append_record), a
                // filter that keeps everything (hint (0, Some(n))), and `from_fn` (hint (0, None)).
                let shape = self.op_count % 3;
                let res = if !payloads.is_empty() && shape == 1 {
                    log.append_records(q, *pos, payloads.iter().map(|p| &p[..]).filter(|_| true))
                } else if !payloads.is_empty() && shape == 2 {
                    let mut it = payloads.iter();
                    log.append_records(q, *pos, std::iter::from_fn(move || it.next().map(|p| &p[..])))
                } else if payloads.len() == 1 {
                    log.append_record(q, *pos, &payloads[0][..])
                } else if payloads.is_empty() && self.op_count % 2 == 1 {
                    // an empty batch is an iterator that yields nothing, whatever its size hint
                    // says: every other time it is handed over as a filter that drops everything
                    let dropped: [&[u8]; 2] = [b"x", b"y"];
                    log.append_records(q, *pos, dropped.iter().copied().filter(|_| false))
                } else {
                    log.append_records(q, *pos, payloads.iter().map(|p| &p[..]))
                };
                match res {
                    Ok(o) => (Outcome::Appended(o.last_position), Some(o.wal_bytes_written)),
                    Err(AppendError::MissingQueue(_)) => {
                        (Outcome::Err(ErrKind::MissingQueue), None)
                    }
                    Err(AppendError::Past) => (Outcome::Err(ErrKind::Past), None),
                    Err(AppendError::IoError(e)) => (Outcome::Err(io_kind(&e)), None),
                }
            }
            COp::Trunc { q, pos } => match log.truncate(q, ..=*pos) {
                Ok(o) => (
                    Outcome::Truncated(o.evicted_records),
                    Some(o.wal_bytes_written),
                ),
                Err(TruncateError::MissingQueue(_)) => (Outcome::Err(ErrKind::MissingQueue), None),
                Err(TruncateError::IoError(e)) => (Outcome::Err(io_kind(&e)), None),
            },
            COp::Persist { fsync } => {
                let action = if *fsync {
                    PersistAction::FlushAndFsync
                } else {
                    PersistAction::Flush
                };
                match log.persist(action) {
                    Ok(()) => (Outcome::Persisted, None),
                    Err(e) => (Outcome::Err(io_kind(&e)), None),
                }
            }
            COp::Reopen => {
                self.log = None; // clean drop: flushes
                match open_log(&self.dir, self.policy) {
                    Ok(log) => {
                        self.log = Some(log);
                        (Outcome::Reopened, None)
                    }
                    Err(ReadRecordError::IoError(e)) => (Outcome::Err(io_kind(&e)), None),
                    Err(ReadRecordError::Corruption) => {
                        (Outcome::Err(ErrKind::Io("Corruption".into())), None)
                    }
                }
            }
        }
    }

    pub fn observe(&self) -> Obs {
        observe(self.log())
    }
}

/// Compares every read accessor with the model, for all range-bound shapes (C05).
/// Returns the number of reads whose payload crossed the ring-buffer wrap (Cow::Owned).
pub fn check_accessors(log: &MultiRecordLog, model: &Model, missing: &[&str]) -> Result<u64, String> {
    let mut owned_reads = 0u64;
    let mut names: Vec<&str> = log.list_queues().collect();
    names.sort();
    let model_names: Vec<&str> = model.queues.keys().map(|s| s.as_str()).collect();
    if names != model_names {
        return Err(format!(
            "list_queues {:?} != model {:?}",
            trunc_names(&names),
            trunc_names(&model_names)
        ));
    }
    let summary = log.summary();
    if summary.queues.len() != model.queues.len() {
        return Err(format!(
            "summary lists {} queues, model {}",
            summary.queues.len(),
            model.queues.len()
        ));
    }
    for (name, mq) in &model.queues {
        if !log.queue_exists(name) {
            return Err(format!("queue_exists({}) false", short(name)));
        }
        let Some(qs) = summary.queues.get(name) else {
            return Err(format!("summary misses queue {}", short(name)));
        };
        if qs.end != mq.last_position() {
            return Err(format!(
                "summary.end {:?} != model {:?} for {}",
                qs.end,
                mq.last_position(),
                short(name)
            ));
        }
        let lp = log.last_position(name).map_err(|e| e.to_string())?;
        if lp != mq.last_position() {
            return Err(format!(
                "last_position({}) = {:?}, model {:?}",
                short(name),
                lp,
                mq.last_position()
            ));
        }
        let lr = log.last_record(name).map_err(|e| e.to_string())?;
        let lr = lr.map(|r| (r.position, r.payload.to_vec()));
        let mlr = mq.recs.last().map(|r| (r.0, r.1.to_vec()));
        if lr != mlr {
            return Err(format!(
                "last_record({}) = {:?}, model {:?}",
                short(name),
                lr.map(|r| (r.0, r.1.len())),
                mlr.map(|r| (r.0, r.1.len()))
            ));
        }
        // end points: first-1, first, a middle position, a gap position, last, last+1
        let first = mq.first();
        let last = mq.next.saturating_sub(1);
        let mut pts: Vec<u64> = vec![0, first.saturating_sub(1), first, last, last + 1, u64::MAX];
        if mq.recs.len() >= 2 {
            pts.push(mq.recs[mq.recs.len() / 2].0);
            // a gap position if there is one
            for w in mq.recs.windows(2) {
                if w[1].0 > w[0].0 + 1 {
                    pts.push(w[0].0 + 1);
                    break;
                }
            }
        }
        pts.sort();
        pts.dedup();
        let mut bounds: Vec<Bound<u64>> = vec![Bound::Unbounded];
        for p in &pts {
            bounds.push(Bound::Included(*p));
            bounds.push(Bound::Excluded(*p));
        }
        for lo in &bounds {
            for hi in &bounds {
                let got: Vec<(u64, Vec<u8>)> = log
                    .range(name, (*lo, *hi))
                    .map_err(|e| e.to_string())?
                    .map(|r| {
                        // An owned payload for a record that is not the last one can only come
                        // from a read that crossed the physical end of the ring buffer.
                        if matches!(r.payload, std::borrow::Cow::Owned(_))
                            && Some(r.position) != mq.recs.last().map(|l| l.0)
                        {
                            owned_reads += 1;
                        }
                        (r.position, r.payload.to_vec())
                    })
                    .collect();
                let want: Vec<(u64, &[u8])> = mq
                    .recs
                    .iter()
                    .filter(|r| in_bounds(r.0, lo, hi))
                    .map(|r| (r.0, &r.1[..]))
                    .collect();
                let same = got.len() == want.len()
                    && got
                        .iter()
                        .zip(want.iter())
                        .all(|(g, w)| g.0 == w.0 && g.1[..] == *w.1);
                if !same {
                    return Err(format!(
                        "range({}, {:?}..{:?}) = {:?}, model {:?}",
                        short(name),
                        lo,
                        hi,
                        got.iter().map(|r| (r.0, r.1.len())).collect::<Vec<_>>(),
                        want.iter().map(|r| (r.0, r.1.len())).collect::<Vec<_>>()
                    ));
                }
            }
        }
    }
    for name in missing {
        if model.queues.contains_key(*name) {
            continue;
        }
        if log.queue_exists(name) {
            return Err(format!("queue_exists({}) true for a missing queue", name));
        }
        if log.range(name, ..).is_ok() {
            return Err(format!("range on missing queue {} is Ok", name));
        }
        if log.last_position(name).is_ok() {
            return Err(format!("last_position on missing queue {} is Ok", name));
        }
        if log.last_record(name).is_ok() {
            return Err(format!("last_record on missing queue {} is Ok", name));
        }
    }
    Ok(owned_reads)
}

fn in_bounds(p: u64, lo: &Bound<u64>, hi: &Bound<u64>) -> bool {
    let lo_ok = match lo {
        Bound::Unbounded => true,
        Bound::Included(l) => p >= *l,
        Bound::Excluded(l) => p > *l,
    };
    let hi_ok = match hi {
        Bound::Unbounded => true,
        Bound::Included(h) => p <= *h,
        Bound::Excluded(h) => p < *h,
    };
    lo_ok && hi_ok
}

pub fn short(name: &str) -> String {
    if name.len() > 40 {
        format!("<{}-byte name>", name.len())
    } else {
        name.to_string()
    }
}
fn trunc_names(names: &[&str]) -> Vec<String> {
    names.iter().map(|n| short(n)).collect()
}

// ---------------------------------------------------------------------------------------------
// scratch directories on tmpfs

static DIR_COUNTER: AtomicUsize = AtomicUsize::new(0);

pub fn scratch_base() -> PathBuf {
    let root = if Path::new("/dev/shm").is_dir() {
        PathBuf::from("/dev/shm")
    } else {
        std::env::temp_dir()
    };
    root.join(format!("mrlmc-{}", std::process::id()))
}

pub struct Scratch {
    pub path: PathBuf,
    pub vfs: bool,
}

/// In-memory directories unless VERIF_REAL_FS=1.
pub fn default_vfs() -> bool {
    std::env::var("VERIF_REAL_FS").map(|v| v != "1").unwrap_or(true)
}

impl Scratch {
    pub fn new() -> Scratch {
        Scratch::with_mode(default_vfs())
    }
    pub fn with_mode(vfs: bool) -> Scratch {
        let n = DIR_COUNTER.fetch_add(1, Ordering::SeqCst);
        // (the directory name is deliberately not valid UTF-8: the library gets a `Path`, and must
        // not take a detour through a lossy string)
        let path = {
            use std::os::unix::ffi::OsStrExt;
            let mut name = b"d\xe9-".to_vec();
            name.extend_from_slice(n.to_string().as_bytes());
            scratch_base().join(std::ffi::OsStr::from_bytes(&name))
        };
        std::fs::create_dir_all(&path).expect("create scratch dir");
        if vfs {
            vh::fs::vfs_enable(&path);
        }
        Scratch { path, vfs }
    }
    /// Empties the directory.
    pub fn reset(&self) {
        if self.vfs {
            vh::fs::vfs_set_files(&self.path, &BTreeMap::new());
            return;
        }
        if let Ok(rd) = std::fs::read_dir(&self.path) {
            for e in rd.flatten() {
                let p = e.path();
                let is_dir = e.file_type().map(|t| t.is_dir()).unwrap_or(false);
                if is_dir {
                    let _ = std::fs::remove_dir_all(&p);
                } else {
                    let _ = std::fs::remove_file(&p);
                }
            }
        }
    }
}

impl Drop for Scratch {
    fn drop(&mut self) {
        let _ = std::fs::remove_dir_all(&self.path);
    }
}

pub fn cleanup_scratch_base() {
    let _ = std::fs::remove_dir_all(scratch_base());
}

/// Sorted listing of the directory: (name, length) of every entry.
pub fn list_dir(dir: &Path) -> Vec<(String, u64)> {
    if vh::fs::vfs_enabled(dir) {
        return vh::fs::vfs_list(dir);
    }
    let mut v: Vec<(String, u64)> = std::fs::read_dir(dir)
        .map(|rd| {
            rd.flatten()
                .map(|e| {
                    (
                        e.file_name().to_string_lossy().into_owned(),
                        e.metadata().map(|m| m.len()).unwrap_or(0),
                    )
                })
                .collect()
        })
        .unwrap_or_default();
    v.sort();
    v
}

/// All regular files of the directory: name -> bytes.
pub fn read_image(dir: &Path) -> BTreeMap<String, Vec<u8>> {
    if vh::fs::vfs_enabled(dir) {
        return vh::fs::vfs_files(dir);
    }
    let mut img = BTreeMap::new();
    for (name, _) in list_dir(dir) {
        if dir.join(&name).is_file() {
            if let Ok(bytes) = std::fs::read(dir.join(&name)) {
                img.insert(name, bytes);
            }
        }
    }
    img
}

/// Makes the directory hold exactly the files of `image`.
pub fn set_image(dir: &Path, image: &BTreeMap<String, Vec<u8>>) {
    if vh::fs::vfs_enabled(dir) {
        vh::fs::vfs_set_files(dir, image);
        return;
    }
    if let Ok(rd) = std::fs::read_dir(dir) {
        for e in rd.flatten() {
            if !image.contains_key(&e.file_name().to_string_lossy().into_owned()) {
                let _ = std::fs::remove_file(e.path());
            }
        }
    }
    for (name, bytes) in image {
        std::fs::write(dir.join(name), bytes).expect("write image file");
    }
}

pub fn wal_name(n: u64) -> String {
    format!("wal-{:020}", n)
}
pub fn wal_number(name: &str) -> Option<u64> {
    if name.len() == 24 && name.starts_with("wal-") && name[4..].bytes().all(|b| b.is_ascii_digit())
    {
        name[4..].parse().ok()
    } else {
        None
    }
}

/// Reads all WAL files of a directory: (file number, bytes), sorted.
pub fn read_wal_files(dir: &Path) -> Vec<(u64, Vec<u8>)> {
    let mut v: Vec<(u64, Vec<u8>)> = read_image(dir)
        .into_iter()
        .filter_map(|(name, bytes)| wal_number(&name).map(|n| (n, bytes)))
        .collect();
    v.sort();
    v
}

//! State-relative operation alphabet. Ops are resolved against the reference model at execution
//! time, so a small menu reaches every shortcut in the code (retry, past, gap, truncate below /
//! at / inside / at end / beyond).
use std::sync::Arc;

use crate::model::{COp, Model, Payload};

pub const BLOCK: usize = mrecordlog::BLOCK_NUM_BYTES;
pub const FILE: usize = mrecordlog::verif_hooks::FILE_NUM_BYTES;
pub const TINY: bool = BLOCK == 64;

#[derive(Clone, Copy, Debug, PartialEq, Eq, Hash, serde::Serialize, serde::Deserialize)]
pub enum Pos {
    Auto,
    /// Some(next - 1): acknowledged no-op
    Retry,
    /// Some(next - 2): Past
    Past,
    /// Some(next): explicit position equal to the next one
    Exact,
    /// Some(next + 2): leaves a gap
    Gap,
    /// Some(2^62 - 4)
    Huge,
    /// Some(2^32 - 2): crosses the 32-bit boundary with the next few appends
    Near32,
    /// Some(0), whatever the queue holds
    Zero,
}

#[derive(Clone, Copy, Debug, PartialEq, Eq, Hash, serde::Serialize, serde::Deserialize)]
pub enum Sz {
    S0,
    S1,
    S3,
    S5,
    /// about 1.5 blocks
    L,
    /// more than one WAL file
    XL,
    /// fixed number of bytes
    N(u32),
    /// the byte image of a CRC-valid frame (see damage::embedded_frame_payload)
    Emb,
    /// filler up to the end of the first frame of the entry (when the entry starts at a block
    /// start), then the byte image of a serialized WAL entry: the entry's second frame holds
    /// exactly an entry image
    EmbTail,
}

impl Sz {
    pub fn len(self) -> usize {
        match self {
            Sz::S0 => 0,
            Sz::S1 => 1,
            Sz::S3 => 3,
            Sz::S5 => 5,
            Sz::L => BLOCK * 3 / 2,
            Sz::XL => FILE + BLOCK / 2 + 12,
            Sz::N(n) => n as usize,
            Sz::Emb => crate::damage::embedded_frame_payload().len(),
            Sz::EmbTail => crate::damage::embedded_tail_payload().len(),
        }
    }
}

#[derive(Clone, Copy, Debug, PartialEq, Eq, Hash, serde::Serialize, serde::Deserialize)]
pub enum Tr {
    BelowFirst,
    First,
    Mid,
    Last,
    Beyond,
    /// position 0, whatever the queue holds
    Zero,
    /// 2^61: far beyond anything appended
    Far,
    /// the second to last retained record: everything but the newest record is evicted
    Penult,
}

#[derive(Clone, Debug, PartialEq, Eq, Hash, serde::Serialize, serde::Deserialize)]
pub enum Op {
    Create(u8),
    Delete(u8),
    Append { q: u8, pos: Pos, sizes: Vec<Sz> },
    Trunc { q: u8, at: Tr },
    Persist(bool),
    Reopen,
}

impl Op {
    pub fn app(q: u8, pos: Pos, sz: Sz) -> Op {
        Op::Append {
            q,
            pos,
            sizes: vec![sz],
        }
    }
    pub fn short(&self) -> String {
        match self {
            Op::Create(q) => format!("Create({})", q),
            Op::Delete(q) => format!("Delete({})", q),
            Op::Append { q, pos, sizes } => format!("App({},{:?},{:?})", q, pos, sizes),
            Op::Trunc { q, at } => format!("Trunc({},{:?})", q, at),
            Op::Persist(f) => format!("Persist({})", if *f { "fsync" } else { "flush" }),
            Op::Reopen => "Reopen".to_string(),
        }
    }
}

/// Deterministic, unique-per-record payload bytes; never contains a zero byte.
pub fn payload(uniq: u32, len: usize) -> Payload {
    let mut v = Vec::with_capacity(len);
    for i in 0..len {
        v.push(((uniq as usize * 37 + i * 11) % 251 + 1) as u8);
    }
    Arc::from(v)
}

pub struct Resolver {
    pub names: Vec<String>,
    pub uniq: u32,
}

impl Resolver {
    pub fn new(names: Vec<String>) -> Resolver {
        Resolver { names, uniq: 0 }
    }

    pub fn resolve(&mut self, op: &Op, model: &Model) -> COp {
        match op {
            Op::Create(q) => COp::Create(self.names[*q as usize].clone()),
            Op::Delete(q) => COp::Delete(self.names[*q as usize].clone()),
            Op::Append { q, pos, sizes } => {
                let name = self.names[*q as usize].clone();
                let next = model.queues.get(&name).map(|mq| mq.next);
                let pos = match (pos, next) {
                    (Pos::Auto, _) => None,
                    (Pos::Huge, _) => Some((1u64 << 62) - 4),
                    (Pos::Near32, _) => Some((1u64 << 32) - 2),
                    (Pos::Zero, _) => Some(0),
                    (_, None) => Some(0),
                    (Pos::Retry, Some(n)) => Some(n.saturating_sub(1)),
                    (Pos::Past, Some(n)) => Some(n.saturating_sub(2)),
                    (Pos::Exact, Some(n)) => Some(n),
                    (Pos::Gap, Some(n)) => Some(n + 2),
                };
                let payloads = sizes
                    .iter()
                    .map(|sz| {
                        self.uniq += 1;
                        if *sz == Sz::Emb {
                            return Arc::from(crate::damage::embedded_frame_payload());
                        }
                        if *sz == Sz::EmbTail {
                            return Arc::from(crate::damage::embedded_tail_payload());
                        }
                        payload(self.uniq, sz.len())
                    })
                    .collect();
                COp::Append {
                    q: name,
                    pos,
                    payloads,
                }
            }
            Op::Trunc { q, at } => {
                let name = self.names[*q as usize].clone();
                let pos = match model.queues.get(&name) {
                    None => 0,
                    Some(mq) => {
                        let first = mq.first();
                        let last = mq.next.saturating_sub(1);
                        match at {
                            Tr::BelowFirst => first.saturating_sub(1),
                            Tr::First => first,
                            Tr::Mid => {
                                if mq.recs.len() >= 3 {
                                    mq.recs[mq.recs.len() / 2].0
                                } else {
                                    first
                                }
                            }
                            Tr::Last => last,
                            Tr::Beyond => last + 3,
                            Tr::Zero => 0,
                            Tr::Far => 1u64 << 61,
                            Tr::Penult => {
                                if mq.recs.len() >= 2 {
                                    mq.recs[mq.recs.len() - 2].0
                                } else {
                                    first.saturating_sub(1)
                                }
                            }
                        }
                    }
                };
                COp::Trunc { q: name, pos }
            }
            Op::Persist(fsync) => COp::Persist { fsync: *fsync },
            Op::Reopen => COp::Reopen,
        }
    }
}

/// Queue indices: 0 = "a", 1 = "b", 2 = "zz" (never created), 3 = filler "f".
pub const QA: u8 = 0;
pub const QB: u8 = 1;
pub const QZ: u8 = 2;
pub const QF: u8 = 3;

thread_local! {
    static NAME_SET: std::cell::Cell<u8> = const { std::cell::Cell::new(0) };
}

/// While set (per thread), queue "a" carries a name longer than a block (the maximum, 65535
/// bytes, in the real geometry): its control entries span several frames.
pub fn set_long_names(on: bool) {
    NAME_SET.with(|l| l.set(if on { 1 } else { 0 }));
}

/// Name sets 2 and 3: the never-created queue (index 2) carries a name that is too long for the
/// 16-bit length prefix of the WAL entries - 65536 x 'x' (wraps to the empty name, which queue a
/// carries) in set 2; "x" followed by 32768 two-byte characters (65537 bytes, 32769 chars; wraps to
/// "x", the name of queue a) in set 3. Set 0 restores the default.
pub fn set_name_set(n: u8) {
    NAME_SET.with(|l| l.set(n));
}

pub fn default_names() -> Vec<String> {
    let set = NAME_SET.with(|l| l.get());
    let mut v: Vec<String> = match set {
        1 => {
            let long = if TINY { "N".repeat(BLOCK + 6) } else { "N".repeat(65535) };
            vec![long, "b".into(), "zz".into(), "f".into()]
        }
        2 => vec![String::new(), "b".into(), "x".repeat(65536), "f".into()],
        3 => vec!["x".into(), "b".into(), format!("x{}", "\u{e9}".repeat(32768)), "f".into()],
        _ => vec!["a".into(), "b".into(), "zz".into(), "f".into()],
    };
    v.extend((0..NUM_EXTRA_QUEUES).map(|i| format!("q{:02}", i)));
    v
}

/// Extra queue names (indices 4..4+NUM_EXTRA_QUEUES) used by the many-queues seed.
pub const NUM_EXTRA_QUEUES: usize = 30;

fn per_queue_full(q: u8) -> Vec<Op> {
    vec![
        Op::Create(q),
        Op::Delete(q),
        Op::app(q, Pos::Auto, Sz::S3),
        Op::app(q, Pos::Auto, Sz::S0),
        Op::app(q, Pos::Auto, Sz::L),
        Op::Append {
            q,
            pos: Pos::Auto,
            sizes: vec![Sz::S1, Sz::S0, Sz::S5],
        },
        Op::Append {
            q,
            pos: Pos::Auto,
            sizes: vec![],
        },
        Op::Append {
            q,
            pos: Pos::Gap,
            sizes: vec![],
        },
        Op::Append {
            q,
            pos: Pos::Gap,
            sizes: vec![Sz::S1, Sz::S5],
        },
        Op::Append {
            q,
            pos: Pos::Retry,
            sizes: vec![],
        },
        Op::Append {
            q,
            pos: Pos::Past,
            sizes: vec![],
        },
        Op::app(q, Pos::Retry, Sz::S3),
        Op::app(q, Pos::Past, Sz::S3),
        Op::app(q, Pos::Gap, Sz::S3),
        Op::app(q, Pos::Huge, Sz::S3),
        Op::Trunc {
            q,
            at: Tr::BelowFirst,
        },
        Op::Trunc { q, at: Tr::First },
        Op::Trunc { q, at: Tr::Mid },
        Op::Trunc { q, at: Tr::Last },
        Op::Trunc { q, at: Tr::Beyond },
    ]
}

/// A_full: every call shape on queues a and b, the global ops, and ops on a missing queue.
pub fn a_full() -> Vec<Op> {
    let mut v = vec![Op::Reopen];
    v.extend(per_queue_full(QA));
    v.extend(per_queue_full(QB));
    v.push(Op::Persist(false));
    v.push(Op::Persist(true));
    v.push(Op::app(QZ, Pos::Auto, Sz::S3));
    v.push(Op::Trunc { q: QZ, at: Tr::Last });
    v.push(Op::Delete(QZ));
    v
}

/// A_core: the ops that change state in distinct ways, two queues. Used where the depth matters
/// more than the breadth of rejected shapes.
pub fn a_core() -> Vec<Op> {
    let mut v = vec![Op::Reopen];
    for q in [QA, QB] {
        v.push(Op::Create(q));
        v.push(Op::Delete(q));
        v.push(Op::app(q, Pos::Auto, Sz::S3));
        v.push(Op::app(q, Pos::Auto, Sz::L));
        v.push(Op::Append {
            q,
            pos: Pos::Auto,
            sizes: vec![Sz::S1, Sz::S0, Sz::S5],
        });
        v.push(Op::app(q, Pos::Gap, Sz::S3));
        v.push(Op::Trunc { q, at: Tr::First });
        v.push(Op::Trunc { q, at: Tr::Last });
        v.push(Op::Trunc { q, at: Tr::Beyond });
    }
    v
}

/// A_write: the ops that append WAL bytes, plus Reopen (crash / damage profiles).
pub fn a_write() -> Vec<Op> {
    let mut v = vec![];
    for q in [QA, QB] {
        v.push(Op::Create(q));
        v.push(Op::Delete(q));
        v.push(Op::app(q, Pos::Auto, Sz::S3));
        v.push(Op::app(q, Pos::Auto, Sz::L));
        v.push(Op::Append {
            q,
            pos: Pos::Auto,
            sizes: vec![Sz::S1, Sz::S0, Sz::S5],
        });
        v.push(Op::app(q, Pos::Gap, Sz::S3));
        v.push(Op::Trunc { q, at: Tr::First });
        v.push(Op::Trunc { q, at: Tr::Last });
    }
    v.push(Op::Reopen);
    v
}

/// A_roll: A_core plus one append larger than a WAL file per queue (forces roll-over).
pub fn a_roll() -> Vec<Op> {
    let mut v = a_core();
    v.push(Op::app(QA, Pos::Auto, Sz::XL));
    v.push(Op::app(QB, Pos::Auto, Sz::XL));
    v.push(Op::Trunc { q: QA, at: Tr::Penult });
    v
}

/// Finds hasher seeds that realise distinct iteration orders of a map holding `names`.
pub fn probe_hash_seeds(names: &[&str], max: usize) -> Vec<(u64, Vec<String>)> {
    use mrecordlog::verif_hooks as vh;
    let mut found: Vec<(u64, Vec<String>)> = vec![];
    for seed in 0..4096u64 {
        vh::set_hash_seed(seed);
        let mut m: vh::HashMap<String, ()> = Default::default();
        for n in names {
            m.insert(n.to_string(), ());
        }
        let order: Vec<String> = m.keys().cloned().collect();
        if !found.iter().any(|f| f.1 == order) {
            found.push((seed, order));
            if found.len() >= max {
                break;
            }
        }
    }
    vh::set_hash_seed(0);
    found
}


/// Payload sizes at which something changes in the framing or in an integer width: an entry that
/// fills its frame / block / file exactly, one byte more or less, and (real geometry) the u16
/// boundary.
pub fn special_sizes() -> Vec<usize> {
    let single = BLOCK - 7 - 24; // a 1-byte-named single-record append filling a block exactly
    let mut v = vec![single - 1, single, single + 1, BLOCK - 7, BLOCK - 1, BLOCK, BLOCK + 1, 2 * BLOCK, FILE - 31, FILE - 7, FILE, FILE + 1];
    if !TINY {
        v.extend([65535 - 24, 65535, 65536, 65537]);
    }
    v.sort();
    v.dedup();
    v
}

/// Alphabet: appends of every special size to queue a, a small append to b, truncations, restart.
pub fn a_sizes() -> Vec<Op> {
    let mut v: Vec<Op> = special_sizes().into_iter().map(|n| Op::app(QA, Pos::Auto, Sz::N(n as u32))).collect();
    v.push(Op::app(QB, Pos::Auto, Sz::S3));
    v.push(Op::Append { q: QA, pos: Pos::Auto, sizes: vec![Sz::S0, Sz::N((BLOCK - 7 - 24 - 12) as u32)] });
    // a batch of many small records (an entry of many blocks / several files)
    v.push(Op::Append { q: QA, pos: Pos::Auto, sizes: vec![Sz::S1; if TINY { 60 } else { 400 }] });
    v.push(Op::Append { q: QB, pos: Pos::Near32, sizes: vec![Sz::S3, Sz::S1, Sz::S5] });
    v.push(Op::Trunc { q: QA, at: Tr::First });
    v.push(Op::Trunc { q: QA, at: Tr::Mid });
    v.push(Op::Trunc { q: QA, at: Tr::Last });
    v.push(Op::Reopen);
    v
}

/// Alphabet for the sliding-window seeds: appends just below / at / above one block (32 KiB in the
/// real geometry) and well above, a batch of two such records, small appends, head truncations.
pub fn a_window() -> Vec<Op> {
    let mut v = Vec::new();
    for n in [BLOCK - 1, BLOCK, BLOCK + BLOCK / 3] {
        v.push(Op::app(QA, Pos::Auto, Sz::N(n as u32)));
    }
    v.push(Op::app(QA, Pos::Auto, Sz::L));
    v.push(Op::app(QA, Pos::Auto, Sz::S3));
    v.push(Op::Append { q: QA, pos: Pos::Auto, sizes: vec![Sz::N(BLOCK as u32 + 5), Sz::S1, Sz::N(BLOCK as u32)] });
    v.push(Op::app(QB, Pos::Auto, Sz::N(BLOCK as u32 + 9)));
    v.push(Op::Trunc { q: QA, at: Tr::First });
    v.push(Op::Trunc { q: QA, at: Tr::Mid });
    v.push(Op::Trunc { q: QB, at: Tr::First });
    v
}

/// A_shapes: unusual but legal argument shapes on queues a and b (run with unusual queue names):
/// explicit position 0 / next / far ahead, truncations to 0 and to 2^61, batches mixing empty and
/// non-empty payloads in every order of three, single empty payloads, delete + create, restart.
pub fn a_shapes() -> Vec<Op> {
    let mut v = vec![Op::Reopen];
    for q in [QA, QB] {
        v.push(Op::Create(q));
        v.push(Op::Delete(q));
        v.push(Op::app(q, Pos::Auto, Sz::S3));
        v.push(Op::app(q, Pos::Auto, Sz::S0));
        v.push(Op::app(q, Pos::Zero, Sz::S3));
        v.push(Op::app(q, Pos::Exact, Sz::S1));
        v.push(Op::app(q, Pos::Huge, Sz::S3));
        v.push(Op::Trunc { q, at: Tr::Zero });
        v.push(Op::Trunc { q, at: Tr::Far });
        v.push(Op::Trunc { q, at: Tr::Mid });
    }
    for sizes in [vec![Sz::S0, Sz::S0], vec![Sz::S0, Sz::S3, Sz::S0], vec![Sz::S3, Sz::S0, Sz::S0], vec![Sz::S0, Sz::S0, Sz::S3], vec![Sz::S3, Sz::S0, Sz::S5]] {
        v.push(Op::Append { q: QA, pos: Pos::Auto, sizes });
    }
    v.push(Op::Append { q: QB, pos: Pos::Gap, sizes: vec![Sz::S0, Sz::S1] });
    v.push(Op::app(QZ, Pos::Auto, Sz::S3));
    v.push(Op::Trunc { q: QZ, at: Tr::Zero });
    v
}

/// A_shapes plus creation / deletion of the queue with index 2 (run with the name sets in which that
/// name is longer than 65535 bytes).
pub fn a_shapes_oversize() -> Vec<Op> {
    let mut v = a_shapes();
    v.push(Op::Create(QZ));
    v.push(Op::Delete(QZ));
    v
}
